import Emerge.CFG
/-
  Model of the table-driven LR driver `Parser.Parse` of `/repo/internal/ebnf/parser/parser.go`.

    stack.Push(0); token := next()
    loop: s := top; (action, param, err) := ACTION(s, token.Terminal)
      err      → ParseError "unexpected string %q" at token.Pos
      SHIFT    → push param; tokenF(token) (error aborts); token := next()
      REDUCE   → A, β := productions[param]; pop |β| times; t := top; push GOTO(t, A); prodF(param) (error aborts)
      ACCEPT   → return nil
-/
namespace Emerge.LR

inductive Act where
  | shift (s : Nat)
  | reduce (p : Nat)
  | accept
  | error
  deriving DecidableEq, Repr, Inhabited

/-- Parsing tables. Terminals are indices; the end marker is the index `eof`. -/
structure Tables where
  action : Nat → Nat → Act
  goto : Nat → Nat → Option Nat
  prods : List Prod
  eof : Nat

inductive Event where
  | tok (i : Nat)      -- token callback for the i-th input token (0-based)
  | prod (p : Nat)     -- production callback for production p
  deriving DecidableEq, Repr, Inhabited

inductive Result where
  | accept
  /-- ACTION has no entry: input index of the offending token (= input length for the end marker), state (`none` = the
      state pushed after a missing GOTO entry, Go's -1) -/
  | syntaxError (idx : Nat) (state : Option Nat)
  /-- a callback failed: at the `idx`-th callback invocation overall -/
  | callbackError (call : Nat)
  /-- the lexer failed when token `idx` was requested (lexical error, invalid input) -/
  | inputError (idx : Nat)
  | outOfFuel
  deriving DecidableEq, Repr, Inhabited

/-- Driver configuration: state stack (top first; `none` models the -1 pushed after a missing GOTO),
    index of the look-ahead token, events emitted so far (newest first). -/
structure Config where
  stack : List (Option Nat)
  pos : Nat
  events : List Event
  deriving Repr, Inhabited

def lookahead (T : Tables) (w : List Nat) (i : Nat) : Nat := (w[i]?).getD T.eof

def popN {α} : Nat → List α → List α
  | 0, l => l
  | _ + 1, [] => []            -- `Pop` on an empty stack is a no-op in Go
  | n + 1, _ :: l => popN n l

/-- One iteration of the driver loop. `failAt`: the callback invocation (counted over both
    callbacks, from 0) that returns an error, if any; the failing invocation is recorded as an event. -/
def step (T : Tables) (w : List Nat) (failAt errAt : Option Nat) (c : Config) : Config × Option Result :=
  match c.stack.head? with
  | none | some none => (c, some (.syntaxError c.pos none))   -- state -1 (or no state): ACTION fails
  | some (some s) =>
    match T.action s (lookahead T w c.pos) with
    | .error => (c, some (.syntaxError c.pos (some s)))
    | .shift s' =>
      let c' : Config := ⟨some s' :: c.stack, c.pos + 1, .tok c.pos :: c.events⟩
      (c', if failAt = some c.events.length then some (.callbackError c.events.length)
           else if errAt = some (c.pos + 1) then some (.inputError (c.pos + 1))   -- reading the next token fails
           else none)
    | .reduce p =>
      match T.prods[p]? with
      | none => (c, some (.syntaxError c.pos none))      -- index out of range: Go would panic; never for extracted tables
      | some (A, β) =>
        let st := popN β.length c.stack
        let nx := match st.head? with
          | none => T.goto 0 A                            -- Peek on an empty stack yields the zero value
          | some none => none
          | some (some t) => T.goto t A
        let c' : Config := ⟨nx :: st, c.pos, .prod p :: c.events⟩
        (c', if failAt = some c.events.length then some (.callbackError c.events.length) else none)
    | .accept => (c, some .accept)

def run (T : Tables) (w : List Nat) (failAt errAt : Option Nat) : Nat → Config → List Event × Result
  | 0, c => (c.events.reverse, .outOfFuel)
  | n + 1, c =>
    match step T w failAt errAt c with
    | (c', none) => run T w failAt errAt n c'
    | (c', some r) => (c'.events.reverse, r)

def init : Config := ⟨[some 0], 0, []⟩

/-- `errAt = some k`: the lexer delivers `w[0..k-1]` and fails when token `k` is requested. -/
def parse (T : Tables) (w : List Nat) (failAt errAt : Option Nat) (fuel : Nat) : List Event × Result :=
  if errAt = some 0 then ([], .inputError 0) else run T w failAt errAt fuel init

/-- Tables given as association lists, as extracted from `parsing_table.go`. -/
def actionOf (acts : List (Nat × Nat × Nat × Nat)) (s a : Nat) : Act :=
  match acts.find? (fun e => e.1 == s && e.2.1 == a) with
  | none => .error
  | some (_, _, k, p) => if k = 0 then .shift p else if k = 1 then .reduce p else .accept

def gotoOf (gs : List (Nat × Nat × Nat)) (s A : Nat) : Option Nat :=
  (gs.find? (fun e => e.1 == s && e.2.1 == A)).map (·.2.2)

def tablesOf (g : GrammarCopy) (acts : List (Nat × Nat × Nat × Nat)) (gs : List (Nat × Nat × Nat)) : Tables :=
  ⟨actionOf acts, gotoOf gs, g.prods, g.terminals.length⟩

end Emerge.LR
