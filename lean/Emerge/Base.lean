/-
  Base definitions shared by the model of emerge: runes, source positions, hexadecimal helpers
  for the line protocol.  Core Lean only (no Mathlib) so that the driver links as an executable.
-/
namespace Emerge

/-- A Unicode code point (Go `rune`), modelled as an unbounded natural number. -/
abbrev Rune := Nat

/-- `lexer.Position` without the file name: rune offset (0-based), line and column (1-based). -/
structure Pos where
  off : Nat
  line : Nat
  col : Nat
  deriving DecidableEq, Repr, Inhabited

def Pos.start : Pos := ⟨0, 1, 1⟩

/-- The position after reading rune `r` at position `p`: this is what `Input.Next` followed by
    `Lexeme`/`Skip` computes (`offset++`; on `'\n'` `line++` and column 1, else `column++`). -/
def advPos (p : Pos) (r : Rune) : Pos :=
  if r = 10 then ⟨p.off + 1, p.line + 1, 1⟩ else ⟨p.off + 1, p.line, p.col + 1⟩

def advPosList (p : Pos) (rs : List Rune) : Pos := rs.foldl advPos p

@[simp] theorem advPosList_nil (p : Pos) : advPosList p [] = p := rfl
@[simp] theorem advPosList_cons (p : Pos) (r : Rune) (rs : List Rune) :
    advPosList p (r :: rs) = advPosList (advPos p r) rs := rfl
theorem advPosList_append (p : Pos) (a b : List Rune) :
    advPosList p (a ++ b) = advPosList (advPosList p a) b := by
  simp [advPosList, List.foldl_append]

/-- `Position.String()` with a non-empty file name `f`. -/
def Pos.render (file : String) (p : Pos) : String :=
  (if file.isEmpty then "" else file ++ ":") ++
  (if p.line > 0 ∧ p.col > 0 then toString p.line ++ ":" ++ toString p.col else toString p.off)

end Emerge
