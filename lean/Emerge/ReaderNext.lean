import Emerge.Reader
import Emerge.Utf8
/-
  The emitted `Next` (templates/input.go.tmpl): a rune assembled from 1 to 4 calls of `next`, the first byte deciding
  the length and the range of the second byte (tables `first` / `acceptRanges`; `Emerge.Inst.ReaderTmpl.class_eq` proves
  they classify every byte as the case analysis below), continuation bytes in 0x80..0xBF. End of input inside a
  sequence is end of input; a byte outside its range is "invalid utf-8 character". Core Lean only.
-/
namespace Emerge.Reader
open Emerge

inductive RuneOut where
  | rune (r : Nat) (size : Nat)     -- the rune and the number of bytes `Retract` will give back for it
  | eof
  | invalid
  deriving DecidableEq, Repr

/-- read one more byte and go on with `k`, or stop at end of input -/
def withByte (src : Nat → Nat) (len n : Nat) (s : RState) (k : Nat → RState → RuneOut × RState) : RuneOut × RState :=
  match next src len n s with
  | (none, s') => (.eof, s')
  | (some b, s') => k b s'

def nextRune (src : Nat → Nat) (len n : Nat) (s : RState) : RuneOut × RState :=
  withByte src len n s fun b0 s1 =>
    if b0 < 0x80 then (.rune b0 1, s1)
    else if 0xC2 ≤ b0 ∧ b0 ≤ 0xDF then
      withByte src len n s1 fun b1 s2 =>
        if Utf8.cont b1 then (.rune ((b0 % 32) * 64 + b1 % 64) 2, s2) else (.invalid, s2)
    else if 0xE0 ≤ b0 ∧ b0 ≤ 0xEF then
      withByte src len n s1 fun b1 s2 =>
        if (if b0 = 0xE0 then 0xA0 else 0x80) ≤ b1 ∧ b1 ≤ (if b0 = 0xED then 0x9F else 0xBF) then
          withByte src len n s2 fun b2 s3 =>
            if Utf8.cont b2 then (.rune ((b0 % 16) * 4096 + (b1 % 64) * 64 + b2 % 64) 3, s3) else (.invalid, s3)
        else (.invalid, s2)
    else if 0xF0 ≤ b0 ∧ b0 ≤ 0xF4 then
      withByte src len n s1 fun b1 s2 =>
        if (if b0 = 0xF0 then 0x90 else 0x80) ≤ b1 ∧ b1 ≤ (if b0 = 0xF4 then 0x8F else 0xBF) then
          withByte src len n s2 fun b2 s3 =>
            if Utf8.cont b2 then
              withByte src len n s3 fun b3 s4 =>
                if Utf8.cont b3 then (.rune ((b0 % 8) * 262144 + (b1 % 64) * 4096 + (b2 % 64) * 64 + b3 % 64) 4, s4)
                else (.invalid, s4)
            else (.invalid, s3)
        else (.invalid, s2)
    else (.invalid, s1)

end Emerge.Reader
