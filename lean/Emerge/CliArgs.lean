import Emerge.Cli
/-
  Model of the command line: `flag.FlagSet.Parse` (Go's standard library, `parseOne`) over the flags that
  `flagit.Register` puts on the set for `command.Command` - a `bool` field becomes `BoolVar`, every other field a
  `Var` that takes a value -, then `main`'s mapping of the outcome:

    for each argument, from the left:
      shorter than 2 characters, or not starting with '-'        → the flags end here; this and the rest are the arguments
      "--"                                                        → consumed; the flags end here
      "-x…" / "--x…": the name is what follows the one or two minus signs; empty, or starting with '-' or '='  → error
      name[=value] is split at the first '=' that is not its first character
      unknown name: "help" and "h" → flag.ErrHelp, anything else → error
      bool flag:  no value → true; a value must be one of strconv.ParseBool's spellings
      other flag: the value after '=', else the next argument (consumed); none left → error
    main: ErrHelp → usage, status 0; any other error → status 2; otherwise -help, -version, Run(remaining arguments).

  The table of flags (names, kinds) is regenerated from the struct tags of `command.Command` on every run
  (`Emerge.Gen.CliFlags.flags`). Core Lean only.
-/
namespace Emerge.CliArgs
open Emerge

inductive Kind where
  | bool | str
  deriving DecidableEq, Repr

abbrev Table := List (String × Kind)

inductive Outcome where
  /-- `sets`: the (name, value) pairs set, the latest first; `rest`: what `FlagSet.Args()` returns -/
  | ok (sets : List (String × String)) (rest : List String)
  | help
  | bad
  deriving DecidableEq, Repr

/-- `strconv.ParseBool` -/
def parseBool? (v : String) : Option Bool :=
  if v ∈ ["1", "t", "T", "TRUE", "true", "True"] then some true
  else if v ∈ ["0", "f", "F", "FALSE", "false", "False"] then some false
  else none

def splitEq : List Char → List Char × Option (List Char)
  | [] => ([], none)
  | c :: cs => if c = '=' then ([], some cs) else let r := splitEq cs; (c :: r.1, r.2)

/-- `name[=value]`: the '=' cannot be the first character -/
def splitName : List Char → List Char × Option (List Char)
  | [] => ([], none)
  | c :: cs => let r := splitEq cs; (c :: r.1, r.2)

/-- what one argument is to the flag set -/
inductive Arg where
  | positional                 -- ends the flags, stays
  | terminator                 -- "--": ends the flags, consumed
  | malformed
  | flag (name : String) (value : Option String)
  deriving DecidableEq, Repr

def classify (a : String) : Arg :=
  match a.toList with
  | '-' :: c :: cs =>
    if c = '-' ∧ cs = [] then .terminator
    else
      let body := if c = '-' then cs else c :: cs
      match body with
      | [] => .malformed
      | b :: _ =>
        if b = '-' ∨ b = '=' then .malformed
        else
          let r := splitName body
          .flag (String.ofList r.1) (r.2.map String.ofList)
  | _ => .positional

def parse (T : Table) : List String → List (String × String) → Outcome
  | [], acc => .ok acc []
  | a :: rest, acc =>
    match classify a with
    | .positional => .ok acc (a :: rest)
    | .terminator => .ok acc rest
    | .malformed => .bad
    | .flag name v =>
      match T.lookup name with
      | none => if name = "help" ∨ name = "h" then .help else .bad
      | some .bool =>
        (match v with
         | none => parse T rest ((name, "true") :: acc)
         | some val =>
           match parseBool? val with
           | some b => parse T rest ((name, toString b) :: acc)
           | none => .bad)
      | some .str =>
        (match v with
         | some val => parse T rest ((name, val) :: acc)
         | none =>
           match rest with
           | [] => .bad
           | val :: rest' => parse T rest' ((name, val) :: acc))

def isSet (sets : List (String × String)) (name : String) : Bool := sets.lookup name == some "true"

/-- `main`: the parsed command line as `Emerge.Cli.run` takes it. `cwd`: the default of `-out` (`command.New`). -/
def toFlags (T : Table) (cwd : String) (argv : List String) : Cli.Flags :=
  match parse T argv [] with
  | .bad => { parseError := true, out := cwd }
  | .help => { usage := true, out := cwd }
  | .ok sets rest =>
    { help := isSet sets "help", version := isSet sets "version", out := (sets.lookup "out").getD cwd,
      name := (sets.lookup "name").getD "", args := rest }

end Emerge.CliArgs
