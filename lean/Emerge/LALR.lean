import Emerge.CFG
/-
  LALR(1) table construction for a grammar with precedence levels — the definition of
  "the LALR(1) tables of that grammar" used by C04/C06.

  Formulation: LR(1) items over LR(0) cores with look-ahead sets as bit masks; states are kernels;
  a kernel reached again is merged into the existing state with the same core (union of
  look-aheads) until nothing changes (least fixed point) — this yields the LALR(1) look-aheads.
  Conflicts are resolved with the rule of moorara/algo `lr/precedence.go`: the handle of a shift
  is the terminal, of a reduce the first terminal of the body (else the production itself); the
  earlier level wins; within one level LEFT prefers reduce, RIGHT prefers shift, NONE is an error.
-/
namespace Emerge.LALR

structure G where
  nT : Nat                 -- number of terminals; the end marker is terminal `nT`
  nNT : Nat                -- number of non-terminals; the augmented start symbol is `nNT`
  prods : List Prod        -- user productions followed by the augmented production (nNT, [nt start])
  levels : List (Assoc × List Handle)
  deriving Repr

def ofCopy (g : GrammarCopy) : G :=
  ⟨g.terminals.length, g.nonTerminals.length, g.prods ++ [(g.nonTerminals.length, [.nt g.start])], g.levels⟩

variable (g : G)

def augIdx : Nat := g.prods.length - 1
def eofT : Nat := g.nT

def body (p : Nat) : List Sym := (g.prods.getD p (0, [])).2
def headOf (p : Nat) : Nat := (g.prods.getD p (0, [])).1

def bit (a : Nat) : Nat := 1 <<< a
def has (m a : Nat) : Bool := (m >>> a) % 2 == 1

def iter {α} (f : α → α) : Nat → α → α
  | 0, x => x
  | n+1, x => iter f n (f x)

def nullStep (nl : List Bool) : List Bool :=
  (List.range (g.nNT + 1)).map fun A =>
    nl.getD A false || g.prods.any fun (h, b) => h == A && b.all fun s => match s with
      | .t _ => false
      | .nt B => nl.getD B false

def nullable : List Bool := iter (nullStep g) (g.nNT + 1) (List.replicate (g.nNT + 1) false)

def firstOfBody (nl : List Bool) (fs : List Nat) : List Sym → Nat
  | [] => 0
  | .t a :: _ => bit a
  | .nt B :: rest => fs.getD B 0 ||| (if nl.getD B false then firstOfBody nl fs rest else 0)

def firstStep (nl : List Bool) (fs : List Nat) : List Nat :=
  (List.range (g.nNT + 1)).map fun A =>
    g.prods.foldl (fun acc (h, b) => if h == A then acc ||| firstOfBody nl fs b else acc) (fs.getD A 0)

def first (nl : List Bool) : List Nat :=
  iter (firstStep g nl) (g.nNT + 1) (List.replicate (g.nNT + 1) 0)

/-- FIRST(β · la) -/
def firstLA (nl : List Bool) (fs : List Nat) : List Sym → Nat → Nat
  | [], la => la
  | .t a :: _, _ => bit a
  | .nt B :: rest, la => fs.getD B 0 ||| (if nl.getD B false then firstLA nl fs rest la else 0)

abbrev Item := Nat × Nat × Nat   -- production, dot, look-ahead mask

def addItem : List Item → Item → List Item × Bool
  | [], it => ([it], true)
  | (p, d, m) :: rest, (p', d', m') =>
    if p == p' && d == d' then
      let m2 := m ||| m'
      ((p, d, m2) :: rest, m2 != m)
    else
      let (r, c) := addItem rest (p', d', m')
      ((p, d, m) :: r, c)

def addAll (items : List Item) (new : List Item) : List Item × Bool :=
  new.foldl (fun (acc, c) it => let (a, c') := addItem acc it; (a, c || c')) (items, false)

structure Ctx where
  nl : List Bool
  fs : List Nat

def mkCtx : Ctx := let nl := nullable g; ⟨nl, first g nl⟩

def derived (cx : Ctx) (it : Item) : List Item :=
  let (p, d, m) := it
  match (body g p).drop d with
  | .nt B :: rest =>
    let la := firstLA cx.nl cx.fs rest m
    (List.range g.prods.length).filterMap fun q => if headOf g q == B then some (q, 0, la) else none
  | _ => []

def closurePass (cx : Ctx) (items : List Item) : List Item × Bool :=
  items.foldl (fun (acc, c) it => let (a, c') := addAll acc (derived g cx it); (a, c || c')) (items, false)

def closure (cx : Ctx) : Nat → List Item → List Item
  | 0, items => items
  | n+1, items => let (it', c) := closurePass g cx items; if c then closure cx n it' else it'

def symAfterDot (it : Item) : Option Sym := ((body g it.1).drop it.2.1).head?

def insertSorted (it : Item) : List Item → List Item
  | [] => [it]
  | x :: xs => if it.1 < x.1 || (it.1 == x.1 && it.2.1 ≤ x.2.1) then it :: x :: xs else x :: insertSorted it xs

def sortItems (l : List Item) : List Item := l.foldl (fun acc it => insertSorted it acc) []

def gotoK (cl : List Item) (X : Sym) : List Item :=
  sortItems (cl.filterMap fun it => if symAfterDot g it == some X then some (it.1, it.2.1 + 1, it.2.2) else none)

def core (k : List Item) : List (Nat × Nat) := k.map fun it => (it.1, it.2.1)

def allSyms : List Sym := (List.range (g.nT + 1)).map Sym.t ++ (List.range g.nNT).map Sym.nt

def mergeKernel : List (List Item) → List Item → List (List Item) × Bool
  | [], k => ([k], true)
  | s :: rest, k =>
    if core s == core k then
      let (s', c) := addAll s k
      (s' :: rest, c)
    else
      let (r, c) := mergeKernel rest k
      (s :: r, c)

def closureFuel : Nat := g.prods.length * 2 + 4

def sweep (cx : Ctx) (states : List (List Item)) : List (List Item) × Bool :=
  (List.range states.length).foldl (fun (sts, c) i =>
    let cl := closure g cx (closureFuel g) (sts.getD i [])
    (allSyms g).foldl (fun (sts, c) X =>
      let k := gotoK g cl X
      if k.isEmpty then (sts, c) else
      let (s', c') := mergeKernel sts k
      (s', c || c')) (sts, c)) (states, false)

def buildStates (cx : Ctx) : Nat → List (List Item) → List (List Item) × Bool
  | 0, s => (s, false)
  | n+1, s => let (s', c) := sweep g cx s; if c then buildStates cx n s' else (s', true)

/-- kernels of the LALR(1) automaton and whether the fixed point was reached within the fuel -/
def kernels (cx : Ctx) (fuel : Nat) : List (List Item) × Bool :=
  buildStates g cx fuel [[(augIdx g, 0, bit (eofT g))]]

def findCore (ks : List (List Item)) (k : List Item) : Option Nat := ks.findIdx? fun s => core s == core k

/-- raw action cells: (state, terminal, kind, param), possibly several per (state, terminal) -/
def rawActions (cx : Ctx) (ks : List (List Item)) : List (Nat × Nat × Nat × Nat) :=
  (List.range ks.length).flatMap fun i =>
    let cl := closure g cx (closureFuel g) (ks.getD i [])
    let shifts := (List.range (g.nT + 1)).filterMap fun a =>
      let k := gotoK g cl (.t a)
      if k.isEmpty then none else (findCore ks k).map fun j => (i, a, 0, j)
    let reduces := cl.flatMap fun (p, d, m) =>
      if d == (body g p).length then
        if p == augIdx g then [(i, eofT g, 2, 0)]
        else (List.range (g.nT + 1)).filterMap fun a => if has m a then some (i, a, 1, p) else none
      else []
    shifts ++ reduces

def rawGotos (cx : Ctx) (ks : List (List Item)) : List (Nat × Nat × Nat) :=
  (List.range ks.length).flatMap fun i =>
    let cl := closure g cx (closureFuel g) (ks.getD i [])
    (List.range g.nNT).filterMap fun A =>
      let k := gotoK g cl (.nt A)
      if k.isEmpty then none else (findCore ks k).map fun j => (i, A, j)

/-! ### precedence -/

def handleOf (a : Nat) (kind param : Nat) : Handle :=
  if kind == 0 then .term a else
    match (body g param).findSome? fun s => match s with | .t x => some x | _ => none with
    | some x => .term x
    | none => .prod (g.prods.getD param (0, []))

def levelOf (h : Handle) : Option (Nat × Assoc) :=
  (g.levels.zipIdx.findSome? fun ((as, hs), i) => if hs.contains h then some (i, as) else none)

/-- `some true`: action `x` wins over `y` -/
def beats (a : Nat) (x y : Nat × Nat) : Option Bool :=
  match levelOf g (handleOf g a x.1 x.2), levelOf g (handleOf g a y.1 y.2) with
  | some (i, as), some (j, _) =>
    if i < j then some true else if j < i then some false else
    match as with
    | .none => none
    | .left => if x.1 == 1 && y.1 == 0 then some true else if x.1 == 0 && y.1 == 1 then some false else none
    | .right => if x.1 == 0 && y.1 == 1 then some true else if x.1 == 1 && y.1 == 0 then some false else none
  | _, _ => none

/-- the action that wins against every other one in the cell, if there is one -/
def resolveCell (a : Nat) (acts : List (Nat × Nat)) : Option (Nat × Nat) :=
  acts.find? fun x => acts.all fun y => x == y || beats g a x y == some true

def dedup {α} [BEq α] (l : List α) : List α := l.foldl (fun acc x => if acc.contains x then acc else acc ++ [x]) []

/-- resolved ACTION table, or `none` if some cell has an unresolved conflict -/
def actions (raw : List (Nat × Nat × Nat × Nat)) : Option (List (Nat × Nat × Nat × Nat)) :=
  let cells := dedup (raw.map fun (s, a, _, _) => (s, a))
  cells.foldl (fun acc (s, a) =>
    match acc with
    | none => none
    | some l =>
      let acts := dedup (raw.filterMap fun (s', a', k, p) => if s' == s && a' == a then some (k, p) else none)
      match resolveCell g a acts with
      | some (k, p) => some (l ++ [(s, a, k, p)])
      | none => none) (some [])

structure Built where
  acts : List (Nat × Nat × Nat × Nat)
  gotos : List (Nat × Nat × Nat)
  nStates : Nat
  deriving Repr

def build (fuel : Nat) : Option Built :=
  let cx := mkCtx g
  let (ks, conv) := kernels g cx fuel
  if !conv then none else
  match actions g (rawActions g cx ks) with
  | none => none
  | some a => some ⟨a, rawGotos g cx ks, ks.length⟩

/-! ### comparison of two tables up to renaming of states -/

def edgesOf (acts : List (Nat × Nat × Nat × Nat)) (gotos : List (Nat × Nat × Nat)) (s : Nat) : List (Sym × Nat) :=
  (acts.filterMap fun (s', a, k, p) => if s' == s && k == 0 then some (Sym.t a, p) else none) ++
  (gotos.filterMap fun (s', A, j) => if s' == s then some (Sym.nt A, j) else none)

/-- renaming (state of table 1 ↦ state of table 2) by simultaneous traversal from state 0 -/
def bfs (a1 : List (Nat × Nat × Nat × Nat)) (g1 : List (Nat × Nat × Nat))
    (a2 : List (Nat × Nat × Nat × Nat)) (g2 : List (Nat × Nat × Nat)) :
    Nat → List (Nat × Nat) → List (Nat × Nat) → List (Nat × Nat)
  | 0, _, ren => ren
  | _, [], ren => ren
  | n+1, (x, y) :: todo, ren =>
    let me := edgesOf a2 g2 y
    let new := (edgesOf a1 g1 x).filterMap fun (X, x') =>
      match me.find? (·.1 == X) with
      | some (_, y') => if ren.any (·.1 == x') then none else some (x', y')
      | none => none
    let new := dedup new
    bfs a1 g1 a2 g2 n (todo ++ new) (ren ++ new.filter fun p => !(ren.any (·.1 == p.1)))

/-- Are the two tables equal entry for entry (in both directions) up to a renaming of states? -/
def tablesIso (a1 : List (Nat × Nat × Nat × Nat)) (g1 : List (Nat × Nat × Nat))
    (a2 : List (Nat × Nat × Nat × Nat)) (g2 : List (Nat × Nat × Nat)) : Bool :=
  let ren := bfs a1 g1 a2 g2 (a1.length + g1.length + 2) [(0, 0)] [(0, 0)]
  let r := fun x => (ren.find? (·.1 == x)).map (·.2)
  let A1 := a1.map fun (s, a, k, p) => (r s, a, k, if k == 0 then r p else some p)
  let A2 := a2.map fun (s, a, k, p) => (some s, a, k, some p)
  let G1 := g1.map fun (s, A, j) => (r s, A, r j)
  let G2 := g2.map fun (s, A, j) => (some s, A, some j)
  A1.length == A2.length && A1.all A2.contains && A2.all A1.contains &&
  G1.length == G2.length && G1.all G2.contains && G2.all G1.contains &&
  -- the renaming is injective on the states it covers
  (ren.all fun p => ren.all fun q => p.2 != q.2 || p.1 == q.1)

end Emerge.LALR
