import Emerge.LR
/-
  The two wrappers built on `Parser.Parse` (`/repo/internal/ebnf/parser/parser.go`):

    ParseAndEvaluate: token callback  → push {Val: lexeme, Pos: &copy-of-token.Pos}
                      production callback i → l := |body i|; rhs[l-1..0] := pops; lhs, err := eval(i, rhs)
                                              (err aborts the parse); push {Val: lhs, Pos: rhs[0].Pos if l > 0}
                      at the end: pop the root
    ParseAndBuildAST: token callback → push leaf; production callback i → pop |body i| children
                      (kept in body order), push the internal node

  Both are folds over the callback sequence of `Parse`; a failing `eval` is a failing callback, so
  by `run_abort` (C18_abort) the callbacks made are a prefix of the unfailing run's.
  Core Lean only.
-/
namespace Emerge.LR

/-- `lr.Value`: the value and the position (here: the index of the token whose position it is). -/
structure Value (V : Type) where
  val : V
  pos : Option Nat
  deriving Repr, DecidableEq

inductive EvalResult (V : Type) where
  | ok (root : Value V)
  | evalError (call : Nat)            -- `eval` failed at its `call`-th invocation (0-based); Parse returned that error
  | parseError (r : Result)           -- Parse itself failed (syntax/input error)
  | panic                             -- a pop from an empty stack would be dereferenced
  deriving Repr

/-- take the top `n` values (newest first on the stack) as the body values, left to right -/
def popValues {α} : Nat → List α → Option (List α × List α)
  | 0, st => some ([], st)
  | _ + 1, [] => none
  | n + 1, v :: st => match popValues n st with
    | some (vs, st') => some (vs ++ [v], st')
    | none => none

/-- Fold of the value stack over the callback sequence. `calls` counts `eval` invocations. -/
def evalEvents {V : Type} (prods : List Prod) (eval : Nat → Nat → List (Value V) → Option V) (tokVal : Nat → V) :
    List Event → List (Value V) → Nat → Except (EvalResult V) (List (Value V))
  | [], st, _ => .ok st
  | .tok i :: es, st, calls => evalEvents prods eval tokVal es (⟨tokVal i, some i⟩ :: st) calls
  | .prod p :: es, st, calls =>
    match prods[p]? with
    | none => .error .panic
    | some (_, β) =>
      match popValues β.length st with
      | none => .error .panic
      | some (rhs, st') =>
        match eval calls p rhs with
        | none => .error (.evalError calls)
        | some v => evalEvents prods eval tokVal es (⟨v, (rhs.head?).bind (·.pos)⟩ :: st') (calls + 1)

/-- `ParseAndEvaluate`. `eval k p rhs` is the `k`-th invocation of the user's function. -/
def evaluate {V : Type} (T : Tables) (eval : Nat → Nat → List (Value V) → Option V) (tokVal : Nat → V)
    (w : List Nat) (errAt : Option Nat) (fuel : Nat) : EvalResult V :=
  let r := parse T w none errAt fuel
  match evalEvents T.prods eval tokVal r.1 [] 0 with
  | .error e => e
  | .ok st =>
    match r.2 with
    | .accept => (match st with | v :: _ => .ok v | [] => .panic)
    | other => .parseError other

/-- Generic parse tree of `ParseAndBuildAST`. -/
inductive Node where
  | leaf (tok : Nat)
  | inner (prod : Nat) (children : List Node)
  deriving Repr, Inhabited

def astEvents (prods : List Prod) : List Event → List Node → Option (List Node)
  | [], st => some st
  | .tok i :: es, st => astEvents prods es (.leaf i :: st)
  | .prod p :: es, st =>
    match prods[p]? with
    | none => none
    | some (_, β) =>
      match popValues β.length st with
      | none => none
      | some (cs, st') => astEvents prods es (.inner p cs :: st')

end Emerge.LR
