import Emerge.EbnfTyped
import Emerge.Driver.Spec
/-
  Driver command `ebnftyped <hex text>`: scanner → LR driver → the typed evaluation actions of `ast.Parse`;
  prints `OK <S-expression>` as the harness prints the typed tree, `ERR` for any rejected text.
-/
namespace Emerge.Driver
open Emerge Emerge.Proto Emerge.LR Emerge.EbnfTyped

def typedOfBytes (bytes : List Nat) : String :=
  let sc := scanBytes genSpec bytes
  let toks := sc.1
  let w := toks.map fun t => termIdx t.kind
  let T := genTables
  let errAt := match sc.2 with | .eof => none | _ => some toks.length
  let r := LR.parse T w none errAt (fuelFor w.length)
  let lexemes := toks.map fun t => stringOfRunes t.lexeme
  match evalTyped Gen.SpecMaps.predefs T.prods lexemes r.1 [] with
  | .error m => if m.startsWith "PANIC" then m else "ERR"
  | .ok st =>
    match r.2 with
    | .accept =>
      match st with
      | [.grammar s] => "OK " ++ s
      | _ => "PANIC result is not a *Grammar"
    | .outOfFuel => "HANG"
    | _ => "ERR"

def cmdEbnfTypedModel (fields : List String) : String :=
  match fields with
  | [h] => typedOfBytes (bytesOfHex h)
  | _ => "BAD"

end Emerge.Driver
