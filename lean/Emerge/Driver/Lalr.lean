import Emerge.LALR
import Emerge.Proofs.LR
import Emerge.Proto
/-
  Driver command `lalr`: the grammar and (if accepted) the table printed by the harness; answers with
  the verdict of the reference LALR(1) construction, whether the implementation's table equals the
  reference table up to a renaming of states, and whether it passes the decidable check `WF` on
  which the soundness theorem `LR.sound` rests.
-/
namespace Emerge.Driver
open Emerge Emerge.Proto

def lfield (fields : List String) (key : String) : String :=
  match fields.find? (fun f => f.startsWith (key ++ "=")) with
  | some f => (f.drop (key.length + 1)).toString
  | none => ""

def parseSym (s : String) : Option Sym :=
  if s.startsWith "t" then (s.drop 1).toString.toNat?.map Sym.t
  else if s.startsWith "n" then (s.drop 1).toString.toNat?.map Sym.nt else none

def parseProd (s : String) : Option Prod :=
  match s.splitOn ">" with
  | [h, b] => h.toNat?.map fun hd => (hd, if b.isEmpty then [] else (b.splitOn ".").filterMap parseSym)
  | _ => none

def parseLevels (s : String) (prods : List Prod) : List (Assoc × List Handle) :=
  if s.isEmpty then [] else
  (s.splitOn ";").map fun l =>
    match l.splitOn ":" with
    | [a, hs] =>
      let assoc := match a with | "1" => Assoc.left | "2" => Assoc.right | _ => Assoc.none
      (assoc, if hs.isEmpty then [] else (hs.splitOn ",").filterMap fun h =>
        if h.startsWith "t" then (h.drop 1).toString.toNat?.map Handle.term
        else if h.startsWith "p" then ((h.drop 1).toString.toNat?.bind fun i => prods[i]?).map Handle.prod else none)
    | _ => (Assoc.none, [])

def parseQuads (s : String) : List (Nat × Nat × Nat × Nat) :=
  if s.isEmpty then [] else
  (s.splitOn ";").filterMap fun e =>
    match (e.splitOn ":").map String.toNat? with
    | [some a, some b, some c, some d] => some (a, b, c, d)
    | _ => none

def parseTriples (s : String) : List (Nat × Nat × Nat) :=
  if s.isEmpty then [] else
  (s.splitOn ";").filterMap fun e =>
    match (e.splitOn ":").map String.toNat? with
    | [some a, some b, some c] => some (a, b, c)
    | _ => none

/-- Is there a map from the states of the reference table to the states of the other table under which every
    reference entry (shift, reduce, accept, goto) is an entry of the other table?  (The other table may conflate
    several reference states into one state with more entries: moorara/algo's `findSuperset` does that.)
    A simulation relation explored from (0, 0). -/
def simulates (ra : List (Nat × Nat × Nat × Nat)) (rg : List (Nat × Nat × Nat))
    (ia : List (Nat × Nat × Nat × Nat)) (ig : List (Nat × Nat × Nat)) : Bool := Id.run do
  let mut seen : List (Nat × Nat) := [(0, 0)]
  let mut todo : List (Nat × Nat) := [(0, 0)]
  let mut fuel := (ra.length + rg.length + 2) * (ia.length + ig.length + 2)
  let mut ok := true
  while fuel > 0 && !todo.isEmpty && ok do
    fuel := fuel - 1
    match todo with
    | [] => pure ()
    | (r, i) :: rest =>
      todo := rest
      for (s, a, k, p) in ra do
        if s == r then
          match ia.find? (fun e => e.1 == i && e.2.1 == a) with
          | none => ok := false
          | some (_, _, k', p') =>
            if k != k' then ok := false
            else if k == 1 && p != p' then ok := false
            else if k == 0 && !seen.contains (p, p') then
              seen := (p, p') :: seen; todo := todo ++ [(p, p')]
      for (s, A, j) in rg do
        if s == r then
          match ig.find? (fun e => e.1 == i && e.2.1 == A) with
          | none => ok := false
          | some (_, _, j') =>
            if !seen.contains (j, j') then
              seen := (j, j') :: seen; todo := todo ++ [(j, j')]
  return ok && todo.isEmpty

/-- lalr nt=… nnt=… start=… prods=… levels=… [acts=… gotos=…] -/
def cmdLalrCheck (fields : List String) : String :=
  let nT := (lfield fields "nt").toNat!
  let nNT := (lfield fields "nnt").toNat!
  let start := (lfield fields "start").toNat!
  let prods := ((lfield fields "prods").splitOn ";").filterMap parseProd
  let levels := parseLevels (lfield fields "levels") prods
  let g : LALR.G := ⟨nT, nNT, prods ++ [(nNT, [.nt start])], levels⟩
  let acts := parseQuads (lfield fields "acts")
  let gotos := parseTriples (lfield fields "gotos")
  match LALR.build g 200 with
  | none => "REF=reject"
  | some b =>
    let iso := LALR.tablesIso acts gotos b.acts b.gotos
    let R : LR.RawTables := ⟨acts, gotos, prods, nT, start⟩
    "REF=ok states=" ++ toString b.nStates ++ " iso=" ++ (if iso then "1" else "0") ++ " wf=" ++ (if R.WF then "1" else "0") ++
      " sim=" ++ (if simulates b.acts b.gotos acts gotos then "1" else "0") ++
      -- is the grammar LALR(1) without its directives? (if not, the directives removed parses, possibly sentences)
      " noprec=" ++ (if levels.isEmpty then "ok" else
        match LALR.build { g with levels := [] } 200 with | some _ => "ok" | none => "reject")

end Emerge.Driver
