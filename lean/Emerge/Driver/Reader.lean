import Emerge.Reader
import Emerge.Proto
/-
  Driver command for the reader model: `reader <n> <hex source> <ops>` with ops `n` (next), `r<size>` (Retract of
  `size` bytes), `l` (Lexeme), `s` (Skip), comma-separated. Prints the outputs of the two-half reader model, then
  ` | `, then the outputs of the plain stream (or `CONTRACT` when the sequence leaves the reader's contract).
-/
namespace Emerge.Driver
open Emerge Emerge.Reader Emerge.Proto

def parseOp (s : String) : Option Op :=
  if s == "n" then some .next
  else if s == "l" then some .lexeme
  else if s == "s" then some .skip
  else if s.startsWith "r" then (s.drop 1).toString.toNat?.map .retract
  else none

def outStr : Out → String
  | .byte b => toString b
  | .eof => "E"
  | .unit => "-"
  | .lex bs => "L" ++ ".".intercalate (bs.map toString)

def cmdReader (fields : List String) : String :=
  match fields with
  | [ns, hexsrc, opss] =>
    match ns.toNat? with
    | some n =>
      let bs := (if hexsrc == "-" then [] else bytesOfHex hexsrc).toArray
      let src : Nat → Nat := fun i => bs.getD i 0
      let ops := (opss.splitOn ",").filterMap parseOp
      let c := cRun src bs.size n (init src bs.size n (fun _ => 0)) ops
      let a := aRun src bs.size n ⟨0, 0, 0⟩ ops
      ",".intercalate (c.map outStr) ++ " | " ++ (match a with | some o => ",".intercalate (o.map outStr) | none => "CONTRACT")
    | none => "BAD"
  | _ => "BAD"

end Emerge.Driver
