import Emerge.Reader
import Emerge.ReaderNext
import Emerge.Proto
/-
  Driver command for the reader model: `reader <n> <hex source> <ops>` with ops `n` (next), `r<size>` (Retract of
  `size` bytes), `l` (Lexeme), `s` (Skip), comma-separated. Prints the outputs of the two-half reader model, then
  ` | `, then the outputs of the plain stream (or `CONTRACT` when the sequence leaves the reader's contract).
-/
namespace Emerge.Driver
open Emerge Emerge.Reader Emerge.Proto

def parseOp (s : String) : Option Op :=
  if s == "n" then some .next
  else if s == "l" then some .lexeme
  else if s == "s" then some .skip
  else if s.startsWith "r" then (s.drop 1).toString.toNat?.map .retract
  else none

def outStr : Out → String
  | .byte b => toString b
  | .eof => "E"
  | .unit => "-"
  | .lex bs => "L" ++ ".".intercalate (bs.map toString)

def cmdReader (fields : List String) : String :=
  match fields with
  | [ns, hexsrc, opss] =>
    match ns.toNat? with
    | some n =>
      let bs := (if hexsrc == "-" then [] else bytesOfHex hexsrc).toArray
      let src : Nat → Nat := fun i => bs.getD i 0
      let ops := (opss.splitOn ",").filterMap parseOp
      let c := cRun src bs.size n (init src bs.size n (fun _ => 0)) ops
      let a := aRun src bs.size n ⟨0, 0, 0⟩ ops
      ",".intercalate (c.map outStr) ++ " | " ++ (match a with | some o => ",".intercalate (o.map outStr) | none => "CONTRACT")
    | none => "BAD"
  | _ => "BAD"

/-- `readernext <n> <hex source> <ops>`: the rune-level calls of the emitted reader - `N` = Next, `R` = Retract (gives back
    the last rune read since the last Lexeme/Skip, if any), `l` = Lexeme, `s` = Skip. Prints the outputs of the model. -/
def cmdReaderNext (fields : List String) : String :=
  match fields with
  | [ns, hexsrc, opss] =>
    match ns.toNat? with
    | some n =>
      let bs := (if hexsrc == "-" then [] else bytesOfHex hexsrc).toArray
      let src : Nat → Nat := fun i => bs.getD i 0
      let step := fun (acc : RState × List Nat × List String) (op : String) =>
        let (s, sizes, outs) := acc
        if op == "N" then
          match nextRune src bs.size n s with
          | (.rune r size, s') => (s', size :: sizes, outs ++ ["U" ++ toString r])
          | (.eof, s') => (s', sizes, outs ++ ["E"])
          | (.invalid, s') => (s', sizes, outs ++ ["I"])
        else if op == "R" then
          match sizes with
          | size :: rest => (retract n s size, rest, outs ++ ["-"])
          | [] => (s, [], outs ++ ["-"])
        else if op == "l" then
          let r := lexeme s
          (r.2, [], outs ++ ["L" ++ ".".intercalate (r.1.map toString)])
        else if op == "s" then (skip s, [], outs ++ ["-"])
        else (s, sizes, outs ++ ["?"])
      let r := (opss.splitOn ",").foldl step (init src bs.size n (fun _ => 0), [], [])
      ",".intercalate r.2.2
    | none => "BAD"
  | _ => "BAD"

end Emerge.Driver
