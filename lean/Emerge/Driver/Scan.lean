import Emerge.Scanner
import Emerge.Utf8
import Emerge.Proto
import Emerge.Gen.Lexer
import Emerge.Ref.Lexer
/-
  Driver-level model of `lexer.New("f", src)` + repeated `NextToken()`:
  bytes → UTF-8 decoding → `Scanner.scan` with the regenerated tables → protocol line.
-/
namespace Emerge.Driver
open Emerge Emerge.Scanner Emerge.Proto

def genSpec : Scanner.Spec :=
  ⟨lookupState Gen.Lexer.advanceTable, lookupEval Gen.Lexer.evalTable,
   fun k => Gen.Lexer.skippedTerminals.contains k⟩

inductive ByteEnd where
  | eof
  | lexErr (pos : Pos) (text : List Rune)
  | badInput (pos : Pos)
  | stuck
  deriving Repr, Inhabited

/-- `lexer.New` + `NextToken` over the bytes of a specification (the reader of emerge's own, which holds the whole source):
    the source is terminated with a newline; the bytes are decoded as UTF-8 up to the first byte sequence that is not a
    character; every token of the valid part is delivered (a zero byte is a character like any other - no token starts with
    it, so it is a lexical error at its position); then the end of the input, the lexical error of the last run, or the
    position of the bytes that are not a character is reported. -/
def scanBytes (S : Scanner.Spec) (bytes : List Nat) : List Token × ByteEnd :=
  let bs := bytes ++ [10]
  let d := Utf8.decode bs.length bs
  let rs := d.1
  let sg := segments S (rs.length + 1) Pos.start rs
  match d.2 with
  | .eof =>
    (sg.1.filterMap (tokenOf S),
      match sg.2 with
      | .eof => .eof
      | .lexErr p t => .lexErr p t
      | .stuck => .stuck)
  | .invalid =>
    (sg.1.filterMap (tokenOf S),
      match sg.2 with
      | .eof => .badInput (advPosList Pos.start rs)
      | .lexErr p t => .lexErr p t
      | .stuck => .stuck)

def fmt2 (f : String) (a b : String) : String :=
  match f.splitOn "%s" with
  | [x, y, z] => x ++ a ++ y ++ b ++ z
  | _ => f

def renderToken (t : Token) : String :=
  hexOfString t.kind ++ ":" ++ hexOfBytes (Utf8.encode t.lexeme) ++ ":" ++
    toString t.pos.off ++ ":" ++ toString t.pos.line ++ ":" ++ toString t.pos.col ++ " "

def renderEnd (file : String) : ByteEnd → String
  | .eof => "END " ++ hexOfString "EOF"
  | .lexErr p t =>
    "END " ++ hexOfBytes (bytesOfString (fmt2 Gen.Lexer.errFormat (p.render file) "") ++ Utf8.encode t)
  | .badInput p => "END " ++ hexOfString (p.render file ++ ": invalid utf-8 character")
  | .stuck => "RUNAWAY"

def cmdScan (fields : List String) : String :=
  match fields with
  | [h] =>
    let bytes := bytesOfHex h
    let r := scanBytes genSpec bytes
    String.join (r.1.map renderToken) ++ renderEnd "f" r.2
  | _ => "BAD"

end Emerge.Driver

namespace Emerge.Driver
open Emerge Emerge.Scanner Emerge.Proto

/-- The documented scanner; `tok41 = false` gives the variant with the recorded finding
    (a single capital letter is not a token). -/
def refSpec (tok41 : Bool) : Scanner.Spec :=
  ⟨Ref.Lexer.advance, fun s => if s = 41 ∧ !tok41 then none else Ref.Lexer.eval s, Ref.Lexer.skipped⟩

def cmdScanWith (S : Scanner.Spec) (fields : List String) : String :=
  match fields with
  | [h] =>
    let bytes := bytesOfHex h
    let r := scanBytes S bytes
    String.join (r.1.map renderToken) ++ renderEnd "f" r.2
  | _ => "BAD"

def showOpt : Option Nat → String
  | none => "-1"
  | some n => toString n

def cmdRefAdvance (fields : List String) : String :=
  match fields with
  | [s, r] => showOpt (Ref.Lexer.advance s.toNat! r.toNat!)
  | _ => "BAD"

def cmdGenAdvance (fields : List String) : String :=
  match fields with
  | [s, r] => showOpt (genSpec.adv s.toNat! r.toNat!)
  | _ => "BAD"

end Emerge.Driver
