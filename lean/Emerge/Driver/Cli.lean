import Emerge.Cli
import Emerge.CliArgs
import Emerge.Gen.CliFlags
import Emerge.Proto
import Emerge.Utf8
/-
  Driver command for the CLI model: `cli key=value …` (see checks/c16.py).
-/
namespace Emerge.Driver
open Emerge Emerge.Cli Emerge.Proto

def kv (fields : List String) (key : String) : String :=
  match fields.find? (fun f => f.startsWith (key ++ "=")) with
  | some f => (f.drop (key.length + 1)).toString
  | none => ""

def hexStr (h : String) : String :=
  if h == "-" || h.isEmpty then "" else
    let bs := bytesOfHex h
    String.ofList ((Utf8.decode bs.length bs).1.map Char.ofNat)

def nodeOfState (s : String) : Option Node :=
  match s with
  | "dir" => some .dir
  | "file" => some (.file "old")
  | "symlink" => some (.symlink "elsewhere")
  | _ => none

def cmdCli (fields : List String) : String :=
  let b := fun k => kv fields k == "1"
  -- `argv=<hex>,<hex>,… cwd=<hex>`: the command line as typed, through the model of the flag set over the regenerated
  -- flag table; otherwise the digested fields (`perr`, `usage`, …) of earlier replay files
  let fl : Flags :=
    if kv fields "argv" != "" then
      let argv := if kv fields "argv" == "-" then [] else ((kv fields "argv").splitOn ",").map hexStr
      CliArgs.toFlags Gen.CliFlags.flags (hexStr (kv fields "cwd")) argv
    else
      { parseError := b "perr", usage := b "usage", help := b "help", version := b "version",
        out := hexStr (kv fields "out"), name := hexStr (kv fields "name"),
        args := if kv fields "args" == "" then (if b "file" then ["f"] else []) else ((kv fields "args").splitOn ",").map hexStr }
  let out := fl.out
  let sr : SpecResult := ⟨b "parse", hexStr (kv fields "gname"), b "lexer", b "parser"⟩
  let name := chosenName fl sr
  let fs0 : FS := (match nodeOfState (kv fields "outstate") with | some n => [(out, n)] | none => []) ++
                  (match nodeOfState (kv fields "pkgstate") with | some n => [(out ++ "/" ++ name, n)] | none => [])
  let input := match kv fields "input" with
    | "missing" => InputState.missing | "unreadable" => .unreadable | "directory" => .directory | _ => .readable
  -- `halves=a.go,b.go`: the files whose writing fails part-way (valid specification: every file is rendered, in order)
  let halves := (kv fields "halves").splitOn ","
  let faults : List Fault := if kv fields "halves" == "" then [] else
    .none :: allFiles.map (fun f => if halves.contains f then .half else .none)
  let render := fun f => "content of " ++ f
  let r := run fl fs0 input sr (fun _ => b "idvalid") render faults
  let created := r.fs.filter (fun e => (fs0.get e.1).isNone)
  let unchanged := fs0.all (fun e => r.fs.get e.1 == some e.2)
  "exit=" ++ toString r.exit ++ " success=" ++ (if r.success then "1" else "0") ++ " unchanged=" ++ (if unchanged then "1" else "0") ++
    " created=" ++ ",".intercalate (created.map fun e =>
      (if e.1.startsWith (out ++ "/") then (e.1.drop (out.length + 1)).toString else e.1) ++ (match e.2 with | .dir => "/" | _ => "")) ++
    " incomplete=" ++ ",".intercalate (allFiles.filter fun f =>
      match r.fs.get (out ++ "/" ++ name ++ "/" ++ f) with
      | some (.file c) => c != render f
      | _ => false)

end Emerge.Driver
