import Emerge.LREval
import Emerge.Driver.Parse
/-
  Driver commands for the two wrappers of the LR driver over a stub lexer.
-/
namespace Emerge.Driver
open Emerge Emerge.Proto Emerge.LR

def posStr : Option Nat → String
  | none => "-"
  | some i => toString i

def valStr (v : Value String) : String := v.val ++ "@" ++ posStr v.pos

def stubEval (failAt : Option Nat) (k p : Nat) (rhs : List (Value String)) : Option String :=
  if failAt = some k then none
  else some ("(" ++ toString p ++ (String.join (rhs.map fun v => " " ++ valStr v)) ++ ")")

def stubErr (T : LR.Tables) (w : List Nat) (evs : List Event) (r : LR.Result) : String :=
  match r with
  | .accept => "ACCEPT"
  | .syntaxError idx st =>
    let posText := if idx < w.length then "f:1:" ++ toString (idx + 1) else ""
    let lexeme := if idx < w.length then "L" ++ toString idx else ""
    "ERR " ++ hexOfString (syntaxMsg T w idx st posText lexeme)
  | .callbackError _ =>
    match evs.getLast? with
    | some (.tok i) => "ERR " ++ hexOfString ("f:1:" ++ toString (i + 1) ++ ": cb")
    | _ => "ERR " ++ hexOfString "cb"
  | .inputError _ => "ERR " ++ hexOfString "input"
  | .outOfFuel => "HANG"

/-- lreval <failAt|-1> <t0,t1,…|->: ParseAndEvaluate with an evaluation function that builds an
    S-expression of its arguments and fails at its `failAt`-th invocation. -/
def cmdLrEval (fields : List String) : String :=
  match fields with
  | [fa, ts] =>
    let w := parseNatList ts
    let T := genTables
    match LR.evaluate T (stubEval (optNat fa)) (fun i => "L" ++ toString i) w none (fuelFor w.length) with
    | .ok v => "OK " ++ hexOfString (valStr v)
    | .evalError _ => "ERR " ++ hexOfString "cb"
    | .parseError r => stubErr T w (LR.parse T w none none (fuelFor w.length)).1 r
    | .panic => "PANIC"
  | _ => "BAD"

partial def nodeStr : LR.Node → String
  | .leaf i => "L" ++ toString i
  | .inner p cs => "(" ++ toString p ++ String.join (cs.map fun c => " " ++ nodeStr c) ++ ")"

/-- lrast <t0,t1,…|->: ParseAndBuildAST -/
def cmdLrAst (fields : List String) : String :=
  match fields with
  | [ts] =>
    let w := parseNatList ts
    let T := genTables
    let r := LR.parse T w none none (fuelFor w.length)
    match r.2 with
    | .accept =>
      (match LR.astEvents T.prods r.1 [] with
       | some (n :: _) => "OK " ++ hexOfString (nodeStr n)
       | _ => "PANIC")
    | other => stubErr T w r.1 other
  | _ => "BAD"

end Emerge.Driver
