import Emerge.Ebnf
import Emerge.Driver.Parse
import Emerge.Gen.SpecMaps
/-
  Driver-level model of `spec.Parse("f", src)`: scanner → LR driver → semantic actions.
-/
namespace Emerge.Driver
open Emerge Emerge.Proto Emerge.LR Emerge.Ebnf

def hexSym : GSym → String
  | .t a => "t" ++ hexOfString a
  | .nt A => "n" ++ hexOfString A

def hexProd (p : GProd) : String :=
  hexOfString p.head ++ ">" ++ ".".intercalate (p.body.map hexSym)

def hexHandle : GHandle → String
  | .term a => "t" ++ hexOfString a
  | .prod p => "p" ++ hexProd p

def sortedJoin (xs : List String) : String := ",".intercalate (sortStr xs)

def assocInt : Assoc → String
  | .none => "0" | .left => "1" | .right => "2"

def renderSpec (r : SpecResult) : String :=
  "OK name=" ++ hexOfString r.name ++
  " T=" ++ sortedJoin (r.terminals.map hexOfString) ++
  " N=" ++ sortedJoin (r.nonTerminals.map hexOfString) ++
  " P=" ++ sortedJoin (r.prods.map hexProd) ++
  " S=" ++ hexOfString "start" ++
  " D=" ++ ",".intercalate (r.defs.map fun d =>
      hexOfString d.term ++ ":" ++ hexOfString d.value ++ ":" ++ (if d.isRegex then "true" else "false") ++ ":" ++
      (match d.pos with | none => "-" | some p => toString p.off ++ "/" ++ toString p.line ++ "/" ++ toString p.col)) ++
  " L=" ++ ";".intercalate (r.levels.map fun l => assocInt l.assoc ++ ":" ++ sortedJoin (l.handles.map hexHandle))

/-- lines of a (bullet-formatted) MultiError, as the harness prints them: header, then every
    line of every error, trimmed, in the order reported -/
def renderErrLines (errs : List String) : String :=
  let header := if errs.length == 1 then "1 error occurred:" else toString errs.length ++ " errors occurred:"
  let lines := errs.flatMap fun e => (e.splitOn "\n").map fun l => (l.trimAscii).toString
  ",".intercalate ((header :: lines).filter (· ≠ "") |>.map hexOfString)

/-- the harness' form of an arbitrary error text: its non-empty trimmed lines -/
def canonMessage (msg : String) : String :=
  ",".intercalate (((msg.splitOn "\n").map fun l => (l.trimAscii).toString).filter (· ≠ "") |>.map hexOfString)

def endMessage (file : String) : ByteEnd → String
  | .eof => "EOF"
  | .lexErr p t => fmt2 Gen.Lexer.errFormat (p.render file) (stringOfRunes t)
  | .badInput p => p.render file ++ ": invalid utf-8 character"
  | .stuck => "RUNAWAY"

def specOfBytes (cfg : Cfg) (bytes : List Nat) : String :=
  let sc := scanBytes genSpec bytes
  let toks := sc.1
  let w := toks.map fun t => termIdx t.kind
  let T := genTables
  let errAt := match sc.2 with | .eof => none | _ => some toks.length
  let r := LR.parse T w none errAt (fuelFor w.length)
  let lexemes := toks.map fun t => (stringOfRunes t.lexeme, t.pos)
  -- semantic actions run as callbacks during the parse: an error or panic in an action stops the parse
  let ev := evalEvents (action cfg "f" Gen.SpecMaps.terminalNames Gen.SpecMaps.predefs) T.prods lexemes r.1 {}
  match ev with
  | .panic w => "PANIC " ++ hexOfString w
  | .err e => "ERR " ++ renderErrLines e
  | .ok st =>
    match r.2 with
    | .accept =>
      match st.stack with
      | [⟨.spec res, _⟩] => renderSpec res
      | _ => "PANIC " ++ hexOfString "result is not a *Spec"
    | .syntaxError idx stt =>
      let msg := match toks[idx]? with
        | some t => syntaxMsg T w idx stt (t.pos.render "f") (stringOfRunes t.lexeme)
        | none => syntaxMsg T w idx stt "" ""
      "ERR " ++ canonMessage msg
    | .inputError _ => "ERR " ++ canonMessage (endMessage "f" sc.2)
    | .callbackError _ => "ERR " ++ hexOfString "cb"
    | .outOfFuel => "HANG"

def cmdSpec (fields : List String) : String :=
  match fields with
  | [h] => specOfBytes Cfg.current (bytesOfHex h)
  | _ => "BAD"

/-- the same with the recorded, unrepaired findings repaired (Cfg.fixed) -/
def cmdSpecFixed (fields : List String) : String :=
  match fields with
  | [h] => specOfBytes Cfg.fixed (bytesOfHex h)
  | _ => "BAD"

end Emerge.Driver
