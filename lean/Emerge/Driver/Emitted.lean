import Emerge.Emitted
import Emerge.Proto
import Emerge.Utf8
import Emerge.Driver.Scan
/-
  Driver command for the model of the emitted lexer: `emitscan <term=…> <start=…> <finals=…> <trans=…> <hex text>`
  (the automaton in the harness's format, see harness/regex.go dfaStr / specdfa).
-/
namespace Emerge.Driver
open Emerge Emerge.Proto Emerge.Scanner

def parseRange (s : String) : Option (Nat × Nat) :=
  match s.splitOn "-" with
  | [a] => a.toNat?.map fun x => (x, x)
  | [a, b] => match a.toNat?, b.toNat? with
    | some x, some y => some (x, y)
    | _, _ => none
  | _ => none

def parseTransField (s : String) : List (Nat × Nat × Nat × Nat) :=
  if s.isEmpty then [] else
  (s.splitOn ";").flatMap fun part =>
    match part.splitOn ":" with
    | [st, syms] =>
      match st.splitOn ">" with
      | [a, b] =>
        match a.toNat?, b.toNat? with
        | some f, some t => (syms.splitOn ",").filterMap fun r => (parseRange r).map fun (lo, hi) => (f, lo, hi, t)
        | _, _ => []
      | _ => []
    | _ => []

def parseTermField (s : String) : List (Nat × String) :=
  if s.isEmpty then [] else
  (s.splitOn ",").flatMap fun part =>
    match part.splitOn ":" with
    | [name, states] =>
      let nm := String.ofList ((bytesOfHex name).map Char.ofNat)   -- terminal names are ASCII
      (states.splitOn "/").filterMap fun x => x.toNat?.map fun st => (st, nm)
    | _ => []

def fieldVal (fields : List String) (key : String) : String :=
  match fields.find? (fun f => f.startsWith (key ++ "=")) with
  | some f => (f.drop (key.length + 1)).toString
  | none => ""

def renderPos (p : Pos) : String := toString p.off ++ " " ++ toString p.line ++ " " ++ toString p.col

/-- emitscan term=… start=… finals=… trans=… <hex text> -/
def cmdEmitScan (fields : List String) : String :=
  match fields.getLast? with
  | none => "BAD-ARGS"
  | some h =>
    let trans := parseTransField (fieldVal fields "trans")
    let finals := parseTermField (fieldVal fields "term")
    let S := Emitted.specOf trans finals
    let bytes := bytesOfHex h
    let dec := Utf8.decode bytes.length bytes
    let rs := dec.1
    let r := Emitted.scan S rs
    let toks := r.1.map fun t =>
      hexOfString t.kind ++ " " ++ hexOfBytes (Utf8.encode t.lexeme) ++ " " ++ renderPos t.pos
    ";".intercalate toks ++ "|" ++
      (match r.2 with
       | .eof => "EOF"
       | .lexErr p txt => "ERR " ++ hexOfBytes (bytesOfString ("lexical error at " ++ p.render "f" ++ ":") ++ Utf8.encode txt)
       | .stuck => "STUCK")

end Emerge.Driver
