import Emerge.LR
import Emerge.Driver.Scan
import Emerge.Gen.Tables
/-
  Driver-level model of `parser.Parser.Parse` over (a) a stub lexer delivering token kinds and
  (b) the real lexer on a text.
-/
namespace Emerge.Driver
open Emerge Emerge.Proto Emerge.LR

def genTables : LR.Tables := LR.tablesOf Gen.Tables.tableFile Gen.Tables.actions Gen.Tables.gotos

def termName (i : Nat) : String := (Gen.Tables.tableFile.terminals[i]?).getD "?"

/-- `Terminal.String()`: the end marker prints as `$`, everything else quoted (`%q`). -/
def goQuote (s : String) : String :=
  "\"" ++ String.join (s.toList.map fun c =>
    if c = '"' then "\\\"" else if c = '\\' then "\\\\" else
    if c = '\n' then "\\n" else if c = '\t' then "\\t" else if c = '\r' then "\\r" else String.singleton c) ++ "\""

def termString (T : LR.Tables) (a : Nat) : String := if a = T.eof then "$" else goQuote (termName a)

def stateString : Option Nat → String
  | none => "-1"
  | some s => toString s

def renderEvents (evs : List Event) : String :=
  String.join (evs.map fun e => match e with
    | .tok i => "T" ++ toString i ++ " "
    | .prod p => "P" ++ toString p ++ " ")

def fuelFor (n : Nat) : Nat := 64 * (n + 2) + 256

/-- Message of `ParseError` for a syntax error on token `idx`. `posOf`/`lexOf` give position text and lexeme. -/
def syntaxMsg (T : LR.Tables) (w : List Nat) (idx : Nat) (st : Option Nat) (posText lexeme : String) : String :=
  (if posText.isEmpty then "" else posText ++ ": ") ++ "unexpected string " ++ goQuote lexeme ++
  ": no action exists in the parsing table for ACTION[" ++ stateString st ++ ", " ++ termString T (lookahead T w idx) ++ "]"

def optNat (s : String) : Option Nat := if s == "-1" || s == "-" then none else s.toNat?

def parseNatList (s : String) : List Nat :=
  if s == "-" then [] else (s.splitOn ",").filterMap String.toNat?

/-- lr <failAt|-1> <t0,t1,…|->   (stub lexer: token i has lexeme "L<i>", position f:1:<i+1>) -/
def cmdLr (fields : List String) : String :=
  match fields with
  | [fa, ts] =>
    let w := parseNatList ts
    let T := genTables
    let r := LR.parse T w (optNat fa) none (fuelFor w.length)
    renderEvents r.1 ++ "| " ++
    (match r.2 with
     | .accept => "ACCEPT"
     | .syntaxError idx st =>
       let posText := if idx < w.length then "f:1:" ++ toString (idx + 1) else ""
       let lexeme := if idx < w.length then "L" ++ toString idx else ""
       "ERR " ++ hexOfString (syntaxMsg T w idx st posText lexeme)
     | .callbackError _ =>
       -- a token callback error carries the token's position, a production callback error none
       match r.1.getLast? with
       | some (.tok i) => "ERR " ++ hexOfString ("f:1:" ++ toString (i + 1) ++ ": cb")
       | _ => "ERR " ++ hexOfString "cb"
     | .inputError _ => "ERR " ++ hexOfString "input"
     | .outOfFuel => "HANG")
  | _ => "BAD"

/-- index of a terminal name -/
def termIdx (k : String) : Nat := (Gen.Tables.tableFile.terminals.findIdx? (· == k)).getD 9999

def stringOfRunes (rs : List Rune) : String := String.ofList (rs.map Char.ofNat)

/-- parse <failAt|-1> <hex text>: the real lexer feeding the driver. -/
def cmdParse (fields : List String) : String :=
  match fields with
  | [fa, h] =>
    let sc := scanBytes genSpec (bytesOfHex h)
    let toks := sc.1
    let w := toks.map fun t => termIdx t.kind
    let T := genTables
    let errAt := match sc.2 with | .eof => none | _ => some toks.length
    let r := LR.parse T w (optNat fa) errAt (fuelFor w.length)
    let tokAt := fun i => toks[i]?
    renderEvents r.1 ++ "| " ++
    (match r.2 with
     | .accept => "ACCEPT"
     | .syntaxError idx st =>
       match tokAt idx with
       | some t => "ERR " ++ hexOfString (syntaxMsg T w idx st (t.pos.render "f") (stringOfRunes t.lexeme))
       | none => "ERR " ++ hexOfString (syntaxMsg T w idx st "" "")
     | .callbackError _ =>
       match r.1.getLast? with
       | some (.tok i) => "ERR " ++ hexOfString (((tokAt i).map (·.pos.render "f")).getD "" ++ ": cb")
       | _ => "ERR " ++ hexOfString "cb"
     | .inputError _ => (renderEnd "f" sc.2).replace "END " "ERR "
     | .outOfFuel => "HANG")
  | _ => "BAD"

end Emerge.Driver

namespace Emerge.Driver
open Emerge Emerge.Proto Emerge.LR

/-- action <state> <terminal index>: the extracted table, printed like Go's `%v %d` of (lr.ActionType, param) -/
def cmdAction (fields : List String) : String :=
  match fields with
  | [s, a] =>
    match genTables.action s.toNat! a.toNat! with
    | .error => "E"
    | .shift p => "SHIFT " ++ toString p
    | .reduce p => "REDUCE " ++ toString p
    | .accept => "ACCEPT 0"
  | _ => "BAD"

def cmdGoto (fields : List String) : String :=
  match fields with
  | [s, h] =>
    let name := String.ofList ((bytesOfHex h).map Char.ofNat)
    match Gen.Tables.tableFile.nonTerminals.findIdx? (· == name) with
    | none => "-1"
    | some A => match genTables.goto s.toNat! A with
      | none => "-1"
      | some j => toString j
  | _ => "BAD"

end Emerge.Driver
