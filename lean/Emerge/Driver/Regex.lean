import Std.Data.HashMap
import Emerge.Proto
import Emerge.Utf8
import Emerge.Regex.Lang
import Emerge.Regex.Follow
import Emerge.Lexgen
import Emerge.Gen.Regex
/-
  Driver commands for the pattern model: parse outcome, the automaton of the model of the code
  (NFA route and followpos route) and of the documented meaning, all as derivative automata over `Re`
  (state = simplified derivative), printed in the harness's DFA format.
-/
namespace Emerge.Driver
open Emerge Emerge.Regex Emerge.Proto

/-! ### simplifying constructors (ACI-normalised alternatives) so that derivative exploration is finite -/

def Re.key : Re → List Nat
  | .empty => [0]
  | .eps => [1]
  | .set rs => 2 :: rs.length :: rs
  | .alt a b => 3 :: (Re.key a ++ Re.key b)
  | .cat a b => 4 :: (Re.key a ++ Re.key b)
  | .star a => 5 :: Re.key a

def ltList : List Nat → List Nat → Bool
  | [], [] => false
  | [], _ :: _ => true
  | _ :: _, [] => false
  | a :: as, b :: bs => if a < b then true else if b < a then false else ltList as bs

def altList : Re → List Re
  | .alt a b => altList a ++ altList b
  | .empty => []
  | r => [r]

def insertSorted (r : Re) : List Re → List Re
  | [] => [r]
  | x :: xs => if r == x then x :: xs else if ltList (Re.key r) (Re.key x) then r :: x :: xs else x :: insertSorted r xs

def buildAlt : List Re → Re
  | [] => .empty
  | [r] => r
  | r :: rs => .alt r (buildAlt rs)

def mkAlt (a b : Re) : Re :=
  buildAlt ((altList a ++ altList b).foldl (fun acc r => insertSorted r acc) [])

def mkCat (a b : Re) : Re :=
  match a, b with
  | .empty, _ => .empty
  | _, .empty => .empty
  | .eps, b => b
  | a, .eps => a
  | a, b => .cat a b

def mkSet (rs : List Rune) : Re := if rs.isEmpty then .empty else .set rs

/-- normalise once (bottom-up) -/
def norm : Re → Re
  | .empty => .empty
  | .eps => .eps
  | .set rs => mkSet rs
  | .alt a b => mkAlt (norm a) (norm b)
  | .cat a b => mkCat (norm a) (norm b)
  | .star a => match norm a with
    | .empty => .eps
    | .eps => .eps
    | .star x => .star x
    | x => .star x

def sderiv (c : Rune) : Re → Re
  | .empty => .empty
  | .eps => .empty
  | .set rs => if rs.contains c then .eps else .empty
  | .alt a b => mkAlt (sderiv c a) (sderiv c b)
  | .cat a b => if a.nullable then mkAlt (mkCat (sderiv c a) b) (sderiv c b) else mkCat (sderiv c a) b
  | .star a => mkCat (sderiv c a) (.star a)

def setsOf : Re → List (List Rune)
  | .set rs => [rs]
  | .alt a b => setsOf a ++ setsOf b
  | .cat a b => setsOf a ++ setsOf b
  | .star a => setsOf a
  | _ => []

def sortNat (xs : List Nat) : List Nat := (xs.toArray.qsort (· < ·)).toList

/-- boundaries of the maximal runs of a rune list: every run `[lo, hi]` contributes `lo` and `hi + 1` -/
def runBounds (rs : List Rune) : List Nat := Id.run do
  let xs := sortNat rs
  let mut out : List Nat := []
  let mut prev : Option Nat := none
  for x in xs do
    match prev with
    | none => out := x :: out
    | some p => if x = p then pure () else if x = p + 1 then pure () else out := x :: (p + 1) :: out
    prev := some x
  match prev with
  | some p => out := (p + 1) :: out
  | none => pure ()
  return out

def dedupSorted : List Nat → List Nat
  | a :: b :: rest => if a = b then dedupSorted (b :: rest) else a :: dedupSorted (b :: rest)
  | l => l

/-- intervals `[lo, hi]` on which all the sets of the expression are constant (only those meeting some set matter) -/
def intervalsOf (r : Re) : List (Nat × Nat) :=
  let pts := dedupSorted (sortNat ((setsOf r).flatMap runBounds))
  (pts.zip (pts.drop 1)).map fun (a, b) => (a, b - 1)

/-- Worklist exploration of the derivative automaton over interval representatives;
    `none` when more than `cap` states appear. Transitions carry the interval. -/
def derivDFA (r0 : Re) (cap : Nat) : Option (Array Re × List (Nat × (Nat × Nat) × Nat)) := Id.run do
  let r := norm r0
  let alphabet := intervalsOf r
  let mut states : Array Re := #[r]
  let mut index : Std.HashMap (List Nat) Nat := (Std.HashMap.emptyWithCapacity 64).insert (Re.key r) 0
  let mut trans : List (Nat × (Nat × Nat) × Nat) := []
  let mut i := 0
  while i < states.size do
    if states.size > cap then return none
    let s := states[i]!
    for (lo, hi) in alphabet do
      let t := sderiv lo s
      if t != .empty then
        let k := Re.key t
        match index[k]? with
        | some j => trans := (i, (lo, hi), j) :: trans
        | none =>
          index := index.insert k states.size
          states := states.push t
          trans := (i, (lo, hi), states.size - 1) :: trans
    i := i + 1
  return some (states, trans.reverse)

def joinWith (sep : String) (xs : List String) : String := sep.intercalate xs

/-- symbol list as ranges `lo-hi` (input sorted ascending) -/
partial def rangesStr (xs : List Nat) : List String :=
  match xs with
  | [] => []
  | x :: rest =>
    let rec go (hi : Nat) (ys : List Nat) : Nat × List Nat :=
      match ys with
      | y :: ys' => if y = hi + 1 then go y ys' else (hi, ys)
      | [] => (hi, [])
    let (hi, rem) := go x rest
    (if hi > x then toString x ++ "-" ++ toString hi else toString x) :: rangesStr rem

def ivStr (iv : Nat × Nat) : String := if iv.2 > iv.1 then toString iv.1 ++ "-" ++ toString iv.2 else toString iv.1

/-- merge adjacent intervals (input in ascending order) -/
def mergeIvs : List (Nat × Nat) → List (Nat × Nat)
  | a :: b :: rest => if a.2 + 1 = b.1 then mergeIvs ((a.1, b.2) :: rest) else a :: mergeIvs (b :: rest)
  | l => l
termination_by l => l.length

def dfaStr (states : Array Re) (trans : List (Nat × (Nat × Nat) × Nat)) : String := Id.run do
  let finals := (List.range states.size).filter fun i => (states[i]!).nullable
  let mut groups : List ((Nat × Nat) × List (Nat × Nat)) := []
  for (s, iv, t) in trans do
    match groups.find? (fun g => g.1 == (s, t)) with
    | some _ => groups := groups.map fun g => if g.1 == (s, t) then (g.1, g.2 ++ [iv]) else g
    | none => groups := groups ++ [((s, t), [iv])]
  let parts := groups.map fun ((s, t), ivs) =>
    toString s ++ ">" ++ toString t ++ ":" ++ joinWith "," ((mergeIvs ivs).map ivStr)
  return "start=0 finals=" ++ joinWith "," (finals.map toString) ++ " trans=" ++ joinWith ";" parts

def reDFAStr (r : Re) : String :=
  match derivDFA r 1500 with
  | some (st, tr) => "OK " ++ dfaStr st tr
  | none => "TOOBIG"

/-- Go `[]rune(s)`: invalid bytes become U+FFFD one at a time -/
partial def decodeLossy (bs : List Nat) : List Rune :=
  match bs with
  | [] => []
  | _ =>
    let (rs, tail) := Utf8.decode bs.length bs
    let used := (Utf8.encode rs).length
    match tail with
    | .eof => if used < bs.length then rs ++ (List.replicate (bs.length - used) 0xFFFD) else rs
    | .invalid => rs ++ [0xFFFD] ++ decodeLossy (bs.drop (used + 1))

def patternOf (hex : String) : List Rune := decodeLossy (bytesOfHex hex)

def parseGen (s : List Rune) : ParseOutcome :=
  parsePat Gen.Regex.rules Gen.Regex.top Gen.Regex.runeClasses s

def outcomeStr (pattern : List Rune) (o : ParseOutcome) : String :=
  match o with
  | .ok _ => "OK"
  | .invalid => "ERR " ++ hexOfString ("invalid regular expression: " ++ strOf pattern)
  | .semantic es => "ERR " ++ hexOfString ("\n".intercalate es)
  | .panic => "PANIC"
  | .outOfFuel => "OOF"

/-- `repat <hex>`: parse outcome of the model of nfa.Parse / ast.Parse -/
def cmdRePat (f : List String) : String :=
  match f with
  | [h] => let s := patternOf h; outcomeStr s (parseGen s)
  | _ => "BAD-ARGS"

/-- `renfa <hex>`: outcome and automaton of the model of the NFA route -/
def cmdReNFA (f : List String) : String :=
  match f with
  | [h] =>
    let s := patternOf h
    match parseGen s with
    | .ok p => reDFAStr ((compileN Gen.Regex.runeClasses p).toRe RCfg.current)
    | o => outcomeStr s o
  | _ => "BAD-ARGS"

/-- `renfafixed <hex>`: the same with finding F3 repaired (no ε-move on NUL) -/
def cmdReNFAFixed (f : List String) : String :=
  match f with
  | [h] =>
    let s := patternOf h
    match parseGen s with
    | .ok p => reDFAStr ((compileN Gen.Regex.runeClasses p).toRe RCfg.fixed)
    | o => outcomeStr s o
  | _ => "BAD-ARGS"

/-- `respec <hex>`: the automaton of the documented meaning of the pattern -/
def cmdReSpec (f : List String) : String :=
  match f with
  | [h] =>
    let s := patternOf h
    match parseGen s with
    | .ok p => reDFAStr (p.toRe Gen.Regex.runeClasses)
    | o => outcomeStr s o
  | _ => "BAD-ARGS"

/-- `reast <hex>`: outcome and automaton of the model of the followpos route -/
def cmdReAST (f : List String) : String :=
  match f with
  | [h] =>
    let s := patternOf h
    match parseGen s with
    | .ok p =>
      match Follow.toDFA (Follow.build Gen.Regex.runeClasses p) with
      | none => "FUEL"
      | some (st, fin, tr) =>
      let groups := tr
      "OK start=0 finals=" ++ joinWith "," (fin.map toString) ++ " trans=" ++
        joinWith ";" (groups.map fun (s, t, cs) => toString s ++ ">" ++ toString t ++ ":" ++ joinWith "," (rangesStr (sortNat cs)))
        ++ " states=" ++ toString st ++ " spined=" ++ (if Follow.spined p then "1" else "0")
    | o => outcomeStr s o
  | _ => "BAD-ARGS"

end Emerge.Driver

namespace Emerge.Driver
open Emerge Emerge.Lexgen

/-- `winner <i:r|i:s,...|->`: the attribution rule of Spec.DFA for a state owned by the listed definitions -/
def cmdWinner (f : List String) : String :=
  match f with
  | [os] =>
    let owners : List Owner := if os == "-" then [] else
      (os.splitOn ",").filterMap fun x =>
        match x.splitOn ":" with
        | [i, k] => some ⟨i.toNat!, k == "r"⟩
        | _ => none
    match winner owners with
    | .none => "NONE"
    | .term i => "TERM " ++ toString i
    | .conflict is => "CONFLICT " ++ ",".intercalate (is.map toString)
  | _ => "BAD-ARGS"

end Emerge.Driver
