import Emerge.Base
/-
  The parser-combinator fragment that `internal/regex/parser/parser.go` is written in, as data
  (`Comb`), with
    * `ev`      : the operational semantics of the dependency's combinators (ordered choice,
                  greedy repetition, options that never fail) — explicit fuel, three-valued result;
    * `Matches` : the declarative reading of the same term as a context-free grammar
                  (alternation is choice, `REP1` is one-or-more, `OPT` is zero-or-one).
  The grammar itself is *regenerated* from the Go source (`Emerge.Gen.Regex.rules`).
  Core Lean only.
-/
namespace Emerge.Regex

inductive Comb where
  | rune (r : Rune)                         -- comb.ExpectRune
  | runeIn (rs : List Rune)                 -- comb.ExpectRuneIn
  | range (lo hi : Rune)                    -- comb.ExpectRuneInRange
  | str (s : List Rune)                     -- comb.ExpectString
  | rangeExcl (lo hi : Rune) (rs : List Rune) -- comb.ExpectRuneInRange(lo, hi).Bind(comb.ExcludeRunes(rs...))
  | alt (cs : List Comb)                    -- c0.ALT(c1, ...)
  | cat (cs : List Comb)                    -- c0.CONCAT(c1, ...)
  | opt (c : Comb)                          -- c.OPT()
  | rep1 (c : Comb)                         -- c.REP1()
  | map (f : String) (c : Comb)             -- c.Map(f)
  | nt (name : String)                      -- reference to a named rule (a field or method of Parser)

abbrev Rules := List (String × Comb)

def Rules.find (G : Rules) (n : String) : Option Comb :=
  match G with
  | [] => none
  | (k, c) :: rest => if k = n then some c else Rules.find rest n

/-- The values combinators hand to mappers: a rune, a matched string, `Empty{}`, a `List`, or what a
    mapper returned (`V`).  -/
structure Alg (V : Type) where
  rune : Rune → V
  str : List Rune → V
  empty : V
  list : List V → V
  unlist : V → Option (List V)
  app : String → V → Option V       -- a mapper; `none` = the mapper returned `false`

inductive Res (V : Type) where
  | fail
  | oof                               -- out of fuel (never a parse result)
  | ok (v : V) (rest : List Rune)

/-- Operational semantics. `rest = []` models the nil `Input`. -/
def ev {V : Type} (A : Alg V) (G : Rules) : Nat → Comb → List Rune → Res V
  | 0, _, _ => .oof
  | _ + 1, .rune r, s =>
    match s with
    | c :: s' => if c = r then .ok (A.rune r) s' else .fail
    | [] => .fail
  | _ + 1, .runeIn rs, s =>
    match s with
    | c :: s' => if rs.contains c then .ok (A.rune c) s' else .fail
    | [] => .fail
  | _ + 1, .range lo hi, s =>
    match s with
    | c :: s' => if lo ≤ c ∧ c ≤ hi then .ok (A.rune c) s' else .fail
    | [] => .fail
  | _ + 1, .str t, s =>
    if t.isPrefixOf s then .ok (A.str t) (s.drop t.length) else .fail
  | _ + 1, .rangeExcl lo hi rs, s =>
    match s with
    | c :: s' => if lo ≤ c ∧ c ≤ hi then (if rs.contains c then .fail else .ok (A.rune c) s') else .fail
    | [] => .fail
  | _ + 1, .alt [], _ => .fail
  | f + 1, .alt (c :: cs), s =>
    match ev A G f c s with
    | .ok v s' => .ok v s'
    | .oof => .oof
    | .fail => ev A G f (.alt cs) s
  | _ + 1, .cat [], s => .ok (A.list []) s
  | f + 1, .cat (c :: cs), s =>
    match ev A G f c s with
    | .ok v s' =>
      match ev A G f (.cat cs) s' with
      | .ok vs s'' =>
        match A.unlist vs with
        | some l => .ok (A.list (v :: l)) s''
        | none => .oof
      | .fail => .fail
      | .oof => .oof
    | .fail => .fail
    | .oof => .oof
  | f + 1, .opt c, s =>
    match ev A G f c s with
    | .ok v s' => .ok v s'
    | .fail => .ok A.empty s
    | .oof => .oof
  | f + 1, .rep1 c, s =>
    match ev A G f c s with
    | .ok v s' =>
      match s' with
      | [] => .ok (A.list [v]) []                 -- REP: `for in != nil`
      | _ :: _ =>
        match ev A G f (.rep1 c) s' with
        | .ok vs s'' =>
          match A.unlist vs with
          | some l => .ok (A.list (v :: l)) s''
          | none => .oof
        | .fail => .ok (A.list [v]) s'
        | .oof => .oof
    | .fail => .fail
    | .oof => .oof
  | f + 1, .map m c, s =>
    match ev A G f c s with
    | .ok v s' =>
      match A.app m v with
      | some v' => .ok v' s'
      | none => .fail
    | .fail => .fail
    | .oof => .oof
  | f + 1, .nt n, s =>
    match G.find n with
    | some c => ev A G f c s
    | none => .fail

/-- The same term read as a context-free grammar. -/
inductive Matches (G : Rules) : Comb → List Rune → Prop where
  | rune (r) : Matches G (.rune r) [r]
  | runeIn (rs r) : r ∈ rs → Matches G (.runeIn rs) [r]
  | range (lo hi r) : lo ≤ r → r ≤ hi → Matches G (.range lo hi) [r]
  | str (t) : Matches G (.str t) t
  | rangeExcl (lo hi rs r) : lo ≤ r → r ≤ hi → r ∉ rs → Matches G (.rangeExcl lo hi rs) [r]
  | alt (cs c u) : c ∈ cs → Matches G c u → Matches G (.alt cs) u
  | catNil : Matches G (.cat []) []
  | catCons (c cs u v) : Matches G c u → Matches G (.cat cs) v → Matches G (.cat (c :: cs)) (u ++ v)
  | optNone (c) : Matches G (.opt c) []
  | optSome (c u) : Matches G c u → Matches G (.opt c) u
  | repOne (c u) : Matches G c u → Matches G (.rep1 c) u
  | repMore (c u v) : Matches G c u → Matches G (.rep1 c) v → Matches G (.rep1 c) (u ++ v)
  | map (m c u) : Matches G c u → Matches G (.map m c) u
  | nt (n c u) : G.find n = some c → Matches G c u → Matches G (.nt n) u

end Emerge.Regex
