import Emerge.Regex.Pat
/-
  Languages over runes, plain regular expressions `Re` with Brzozowski derivatives (the proved
  oracle), the documented meaning `Pat.denote`, and the NFA-algebra term `NExp` that the NFA-route
  mappers build (`compileN`), with its language under the dependency contract.
  Core Lean only; the proofs are in `Emerge.Proofs.Regex`.
-/
namespace Emerge.Regex

abbrev Lang := List Rune → Prop

namespace Lang
def empty : Lang := fun _ => False
def eps : Lang := fun w => w = []
def set (rs : List Rune) : Lang := fun w => ∃ r, r ∈ rs ∧ w = [r]
def union (a b : Lang) : Lang := fun w => a w ∨ b w
def cat (a b : Lang) : Lang := fun w => ∃ u v, w = u ++ v ∧ a u ∧ b v
inductive star (a : Lang) : Lang
  | nil : star a []
  | app (u v) : a u → star a v → star a (u ++ v)
def pow (a : Lang) : Nat → Lang
  | 0 => eps
  | n + 1 => cat a (pow a n)
/-- between 0 and `n` copies -/
def upto (a : Lang) : Nat → Lang
  | 0 => eps
  | n + 1 => cat (union eps a) (upto a n)
end Lang

/-- Plain regular expressions. -/
inductive Re where
  | empty
  | eps
  | set (rs : List Rune)
  | alt (a b : Re)
  | cat (a b : Re)
  | star (a : Re)
  deriving DecidableEq, Repr, BEq, Inhabited

def Re.lang : Re → Lang
  | .empty => Lang.empty
  | .eps => Lang.eps
  | .set rs => Lang.set rs
  | .alt a b => Lang.union a.lang b.lang
  | .cat a b => Lang.cat a.lang b.lang
  | .star a => Lang.star a.lang

def Re.nullable : Re → Bool
  | .empty => false
  | .eps => true
  | .set _ => false
  | .alt a b => a.nullable || b.nullable
  | .cat a b => a.nullable && b.nullable
  | .star _ => true

def Re.deriv (c : Rune) : Re → Re
  | .empty => .empty
  | .eps => .empty
  | .set rs => if rs.contains c then .eps else .empty
  | .alt a b => .alt (a.deriv c) (b.deriv c)
  | .cat a b => if a.nullable then .alt (.cat (a.deriv c) b) (b.deriv c) else .cat (a.deriv c) b
  | .star a => .cat (a.deriv c) (.star a)

def Re.matchD (r : Re) : List Rune → Bool
  | [] => r.nullable
  | c :: w => (r.deriv c).matchD w

def Re.pow (r : Re) : Nat → Re
  | 0 => .eps
  | n + 1 => .cat r (Re.pow r n)

def Re.upto (r : Re) : Nat → Re
  | 0 => .eps
  | n + 1 => .cat (.alt .eps r) (Re.upto r n)

/-! ### The documented meaning of a pattern -/

/-- The characters `.` and negations range over: the `ASCII` class of the table without NUL
    (NUL is the reader's end-of-input sentinel and the automata library's ε). -/
def univRunes (T : ClassTable) : List Rune := ((classRunes T "ASCII").getD []).filter (· ≠ 0)

def noNul (rs : List Rune) : List Rune := rs.filter (· ≠ 0)

def GItem.chars (T : ClassTable) : GItem → List Rune
  | .char c => [c]
  | .range lo hi => rangeRunes lo hi
  | .cls false rs => rs
  | .cls true rs => ((classRunes T "ASCII").getD []).filter (fun r => !rs.contains r)

/-- Documented: a class matches one of its characters; a negated class or group one character of
    the univRunes not in it; a group one character of any of its items. -/
def setOf (T : ClassTable) (neg : Bool) (rs : List Rune) : List Rune :=
  if neg then (univRunes T).filter (fun r => !rs.contains r) else noNul rs

def quantRe (r : Re) : Quant → Re
  | .opt => .alt .eps r
  | .star => .star r
  | .plus => .cat r (.star r)
  | .rep lo none => .cat (Re.pow r lo) (.star r)
  | .rep lo (some u) => .cat (Re.pow r lo) (Re.upto r (u - lo))

def Pat.toRe (T : ClassTable) : Pat → Re
  | .any => .set (univRunes T)
  | .char c => .set (noNul [c])
  | .cls neg rs => .set (setOf T neg rs)
  | .group neg items => .set (setOf T neg (items.flatMap (GItem.chars T)))
  | .quant p q _ => quantRe (p.toRe T) q
  | .snil => .eps
  | .scons a r => .cat (a.toRe T) (r.toRe T)
  | .alt a b => .alt (a.toRe T) (b.toRe T)

/-- The documented language of a pattern. -/
def Pat.denote (T : ClassTable) (p : Pat) : Lang := (p.toRe T).lang

/-! ### The NFA-route mappers as terms of the dependency's NFA algebra -/

/-- Terms over the operations the mappers call: `sym rs` is `NewNFA(0,{1})` followed by
    `Add(0, r, {1})` for each `r` in `rs`; `eps` is `empty()`;
    `union`, `cat`, `star` are `NFA.Union`, `NFA.Concat`, `NFA.Star`. -/
inductive NExp where
  | sym (rs : List Rune)
  | eps
  | union (a b : NExp)
  | cat (a b : NExp)
  | star (a : NExp)
  deriving DecidableEq, Repr

/-- What distinguishes the code as it is from the code with finding F3 repaired: in the automata
    library symbol 0 *is* ε, so `Add(0, 0, {1})` — which the mappers issue for NUL, a member of the
    `ASCII` class — adds an ε-move and the one-step NFA also accepts the empty string. -/
structure RCfg where
  nulIsEps : Bool
  deriving DecidableEq, Repr

def RCfg.current : RCfg := ⟨true⟩
def RCfg.fixed : RCfg := ⟨false⟩

/-- The contract of the dependency's NFA algebra (validated against moorara/algo by the
    correspondence check, see DESIGN §8): each operation has the language one expects; a
    transition on symbol 0 is an ε-move. -/
def NExp.lang (cfg : RCfg) : NExp → Lang
  | .sym rs => if cfg.nulIsEps && rs.contains 0 then Lang.union Lang.eps (Lang.set (noNul rs)) else Lang.set (noNul rs)
  | .eps => Lang.eps
  | .union a b => Lang.union (a.lang cfg) (b.lang cfg)
  | .cat a b => Lang.cat (a.lang cfg) (b.lang cfg)
  | .star a => Lang.star (a.lang cfg)

def NExp.toRe (cfg : RCfg) : NExp → Re
  | .sym rs => if cfg.nulIsEps && rs.contains 0 then .alt .eps (.set (noNul rs)) else .set (noNul rs)
  | .eps => .eps
  | .union a b => .alt (a.toRe cfg) (b.toRe cfg)
  | .cat a b => .cat (a.toRe cfg) (b.toRe cfg)
  | .star a => .star (a.toRe cfg)

/-- `concat(ns...)`: `ns[0].Concat(ns[1:]...)`, `empty()` for no operand. -/
def catN : List NExp → NExp
  | [] => .eps
  | [a] => a
  | a :: rest => .cat a (catN rest)

/-- `ToCharGroup`: the 128-entry table over the items' characters, then the characters outside it. -/
def groupRunes (T : ClassTable) (neg : Bool) (items : List GItem) : List Rune :=
  let chars := items.flatMap (GItem.chars T)
  let n := ((classRunes T "ASCII").getD []).length
  let table := (List.range n).filter (fun i => if neg then !chars.contains i else chars.contains i)
  let others := (chars.filter (fun c => decide (n ≤ c))).eraseDups
  if neg then table else table ++ others

def quantN (n : NExp) : Quant → NExp
  | .opt => .union .eps n
  | .star => .star n
  | .plus => .cat n (.star n)
  | .rep lo none => catN (List.replicate lo n ++ [.star n])
  | .rep lo (some u) => catN (List.replicate lo n ++ List.replicate (u - lo) (.union .eps n))

def compileN (T : ClassTable) : Pat → NExp
  | .any => .sym ((classRunes T "ASCII").getD [])
  | .char c => .sym [c]
  | .cls false rs => .sym rs
  | .cls true rs => .sym (((classRunes T "ASCII").getD []).filter (fun r => !rs.contains r))
  | .group neg items => .sym (groupRunes T neg items)
  | .quant p q _ => quantN (compileN T p) q
  | .snil => .eps
  | .scons a r =>
    match r with
    | .snil => compileN T a                       -- a single operand: `ns[0].Concat()`
    | _ => .cat (compileN T a) (compileN T r)
  | .alt a b => .union (compileN T a) (compileN T b)

end Emerge.Regex
