import Emerge.Regex.Comb
/-
  What the mappers of `internal/regex/parser/nfa/parser.go` and `.../ast/parser.go` compute, factored
  through one syntax tree `Pat`: both mapper sets are folds over the same tree (the NFA route into the
  dependency's NFA algebra, the followpos route into `Node`), so the model builds the tree once and
  compiles it twice (`Emerge.Regex.Compile`, `Emerge.Regex.Follow`).
  Core Lean only.
-/
namespace Emerge.Regex

/-- `?`, `*`, `+`, and `{lo}` (`up = some lo`), `{lo,}` (`up = none`), `{lo,m}` (`up = some m`). -/
inductive Quant where
  | opt | star | plus
  | rep (lo : Nat) (up : Option Nat)
  deriving DecidableEq, Repr

/-- An item of a bracket group; what matters to `ToCharGroup` is the list of characters in its bag. -/
inductive GItem where
  | char (c : Rune)
  | range (lo hi : Rune)
  | cls (neg : Bool) (rs : List Rune)       -- `\d`, `[:alpha:]`, `\p{..}` and their negations: `rs` is the class
  deriving DecidableEq, Repr

inductive Pat where
  | any                                      -- `.`
  | char (c : Rune)                          -- literal, escaped, `\xHH`, `\xHHHH…`
  | cls (neg : Bool) (rs : List Rune)        -- a class outside brackets
  | group (neg : Bool) (items : List GItem)  -- `[ … ]`, `[^ … ]`
  | quant (p : Pat) (q : Quant) (lazy : Bool)
  | snil                                     -- end of a sub-expression's item list
  | scons (item : Pat) (rest : Pat)          -- sub-expression: item followed by the remaining items
  | alt (a b : Pat)                          -- `a | b`
  deriving DecidableEq, Repr

/-- Values travelling up the combinator tree. -/
inductive Val where
  | rune (r : Rune)
  | str (s : List Rune)
  | empty
  | list (xs : List Val)
  | int (n : Nat)
  | up (n : Option Nat)                      -- ToUpperBound: *int
  | rng (lo : Nat) (up : Option Nat)         -- ToRange: tuple[int, *int]
  | quant (q : Quant) (lazy : Bool)          -- ToQuantifier
  | pat (p : Pat) (item : Option GItem)      -- a node/NFA, and the `chars` bag as the group item it stands for
  | anchor
  | bad                                      -- a Go type assertion or index would panic

abbrev ClassTable := List (String × List (Nat × Nat))

def rangeRunes (lo hi : Nat) : List Rune := (List.range (hi + 1 - lo)).map (· + lo)

def ClassTable.find (T : ClassTable) (n : String) : Option (List (Nat × Nat)) :=
  match T with
  | [] => none
  | (k, v) :: rest => if k = n then some v else ClassTable.find rest n

/-- `RuneClasses[name].Runes()`. -/
def classRunes (T : ClassTable) (n : String) : Option (List Rune) :=
  (T.find n).map fun rs => rs.flatMap fun (lo, hi) => rangeRunes lo hi

def strOf (rs : List Rune) : String := String.ofList (rs.map Char.ofNat)

def Val.get (v : Val) (i : Nat) : Val :=
  match v with
  | .list xs => xs.getD i .empty           -- `Result.Get`: a zero Result (nil Val) when out of range
  | _ => .empty

/-- rune(c) for a hexadecimal escape: Go converts through int32 (8 digits can wrap). Kept as the 32-bit pattern. -/
def rune32 (c : Nat) : Rune := c % 4294967296

def hexFold (vs : List Val) : Nat :=
  vs.foldl (fun c v => match v with | .int d => c * 16 + d | _ => c) 0

/-- The mappers. `some .bad` stands for a panic (failed type assertion). -/
def app (T : ClassTable) (m : String) (v : Val) : Option Val :=
  match m with
  | "toDigit" => (match v with | .rune r => some (.int (r - 48)) | _ => some .bad)
  | "toHexDigit" =>
    (match v with
     | .rune r => some (.int (if 48 ≤ r ∧ r ≤ 57 then r - 48 else r - 55))
     | _ => some .bad)
  | "toNum" =>
    (match v with
     | .list xs =>
       -- a number that does not fit into a Go int (64 bits) makes the mapper fail (repair of the silent wrap-around)
       let n := xs.foldl (fun n x => match x with | .int d => n * 10 + d | _ => n) 0
       if n > 9223372036854775807 then none else some (.int n)
     | _ => some .bad)
  | "toLetters" =>
    (match v with
     | .list xs => some (.str (xs.filterMap fun x => match x with | .rune r => some r | _ => none))
     | _ => some .bad)
  | "toEscapedChar" =>
    (match v.get 1 with
     | .rune c =>
       some (.rune (if c = 116 then 9 else if c = 110 then 10 else if c = 118 then 11 else if c = 102 then 12
                    else if c = 114 then 13 else c))
     | _ => some .bad)
  | "toASCIIChar" =>
    (match v.get 1, v.get 2 with
     | .int d1, .int d2 => some (.rune (d1 * 16 + d2))
     | _, _ => some .bad)
  | "toUnicodeChar" =>
    (match v with
     | .list (_ :: ds) => some (.rune (rune32 (hexFold ds)))
     | _ => some .bad)
  | "ToAnyChar" => some (.pat .any none)
  | "ToSingleChar" => (match v with | .rune c => some (.pat (.char c) (some (.char c))) | _ => some .bad)
  | "ToCharClass" =>
    (match v with
     | .str s =>
       let cls (neg : Bool) (n : String) : Option Val :=
         match classRunes T n with
         | some rs => some (.pat (.cls neg rs) (some (.cls neg rs)))
         | none => some (.pat (.cls neg []) (some (.cls neg [])))     -- missing map entry: nil class
       if s = [92, 115] then cls false "\\s" else if s = [92, 83] then cls true "\\s"
       else if s = [92, 100] then cls false "\\d" else if s = [92, 68] then cls true "\\d"
       else if s = [92, 119] then cls false "\\w" else if s = [92, 87] then cls true "\\w"
       else none
     | _ => some .bad)
  | "ToASCIICharClass" =>
    (match v with
     | .str s =>
       (match classRunes T (strOf s) with
        | some rs => some (.pat (.cls false rs) (some (.cls false rs)))
        | none => none)
     | _ => some .bad)
  | "ToUnicodeCategory" => some v
  | "ToUnicodeCharClass" =>
    (match v.get 0, v.get 2 with
     | .str prop, .str cl =>
       (match classRunes T (strOf cl) with
        | some rs => let neg := decide (prop = [92, 80]); some (.pat (.cls neg rs) (some (.cls neg rs)))
        | none => none)
     | _, _ => some .bad)
  | "ToRepOp" => some v
  | "ToUpperBound" => (match v.get 1 with | .int n => some (.up (some n)) | _ => some (.up none))
  | "ToRange" =>
    (match v.get 1 with
     | .int lo => (match v.get 2 with | .up u => some (.rng lo u) | _ => some (.rng lo (some lo)))
     | _ => some .bad)
  | "ToRepetition" => some v
  | "ToQuantifier" =>
    let lazy := match v.get 1 with | .rune _ => true | _ => false
    (match v.get 0 with
     | .rune 63 => some (.quant .opt lazy)
     | .rune 42 => some (.quant .star lazy)
     | .rune 43 => some (.quant .plus lazy)
     | .rng lo u => some (.quant (.rep lo u) lazy)
     | _ => some .bad)
  | "ToCharInRange" => some v
  | "ToCharRange" =>
    (match v.get 0, v.get 2 with
     | .rune lo, .rune hi => some (.pat (.group false [.range lo hi]) (some (.range lo hi)))
     | _, _ => some .bad)
  | "ToCharGroupItem" => some v
  | "ToCharGroup" =>
    let neg := match v.get 1 with | .rune _ => true | _ => false
    (match v.get 2 with
     | .list items =>
       some (.pat (.group neg (items.filterMap fun x => match x with | .pat _ it => it | _ => none)) none)
     | _ => some .bad)
  | "ToMatchItem" => some v
  | "ToMatch" =>
    (match v.get 0 with
     | .pat p _ => (match v.get 1 with | .quant q lz => some (.pat (.quant p q lz) none) | _ => some (.pat p none))
     | _ => some .bad)
  | "ToGroup" =>
    (match v.get 1 with
     | .pat p _ => (match v.get 3 with | .quant q lz => some (.pat (.quant p q lz) none) | _ => some (.pat p none))
     | _ => some .bad)
  | "ToAnchor" => (match v with | .rune _ => some .anchor | _ => some .bad)
  | "ToSubexprItem" => some v
  | "ToSubexpr" =>
    (match v with
     | .list items =>
       some (.pat (items.foldr (fun x acc => match x with | .pat p _ => .scons p acc | _ => acc) .snil) none)
     | _ => some .bad)
  | "ToExpr" =>
    (match v.get 0 with
     | .pat a _ =>
       (match v.get 1 with
        | .list _ => (match (v.get 1).get 1 with | .pat b _ => some (.pat (.alt a b) none) | _ => some .bad)
        | _ => some (.pat a none))
     | _ => some .bad)
  | "ToRegex" => (match v.get 1 with | .pat p _ => some (.pat p none) | _ => some .bad)
  | _ => some .bad

def alg (T : ClassTable) : Alg Val where
  rune := .rune
  str := .str
  empty := .empty
  list := .list
  unlist := fun v => match v with | .list xs => some xs | _ => none
  app := app T

/-- Semantic errors, in the order the mappers record them (post-order, left to right). -/
def GItem.errors : GItem → List String
  | .range lo hi =>
    if lo > hi then ["invalid character range " ++ strOf [lo] ++ "-" ++ strOf [hi]] else []
  | _ => []

def Quant.errors : Quant → List String
  | .rep lo (some u) => if lo > u then ["invalid repetition range {" ++ toString lo ++ "," ++ toString u ++ "}"] else []
  | _ => []

def Pat.errors : Pat → List String
  | .any | .char _ | .cls _ _ | .snil => []
  | .group _ items => items.flatMap GItem.errors
  | .quant p q _ => p.errors ++ q.errors
  | .scons a r => a.errors ++ r.errors
  | .alt a b => a.errors ++ b.errors

inductive ParseOutcome where
  | ok (p : Pat)
  | invalid                          -- "invalid regular expression: …"
  | semantic (errs : List String)    -- m.errors
  | panic
  | outOfFuel
  deriving DecidableEq, Repr

/-- The fuel the driver gives the interpreter: the nesting of rule references per consumed rune is
    bounded by the grammar's depth; `64 * (|s| + 2)` is far above it (and `outOfFuel` is reported, never hidden). -/
def parseFuel (s : List Rune) : Nat := 64 * (s.length + 2)

/-- `nfa.Parse` / regex `ast.Parse` up to the construction of the automaton/tree. -/
def parsePat (G : Rules) (top : String) (T : ClassTable) (s : List Rune) : ParseOutcome :=
  match s with
  | [] => .invalid                               -- newStringInput("") is nil; every first combinator fails on nil
  | _ =>
    match ev (alg T) G (parseFuel s) (.nt top) s with
    | .oof => .outOfFuel
    | .fail => .invalid
    | .ok v rest =>
      if rest ≠ [] then .invalid                 -- out.Remaining != nil
      else match v with
        | .pat p _ => if p.errors = [] then .ok p else .semantic p.errors
        | _ => .panic

end Emerge.Regex
