import Emerge.Regex.Lang
/-
  The direct (followpos) route of `internal/regex/parser/ast`: the syntax tree `Node` the second
  mapper set builds, `nullable/firstPos/lastPos`, `computeFollows` and `ToDFA` (without the final
  `Minimize`, which is the dependency's) — as the code computes them, with lists for position sets.
  Core Lean only.
-/
namespace Emerge.Regex.Follow
open Emerge Emerge.Regex

def endMarker : Rune := 0xEEEE

inductive Node where
  | concat (xs : List Node)
  | alt (xs : List Node)
  | star (x : Node)
  | empty
  | char (c : Rune) (pos : Nat)
  deriving Repr, Inhabited

abbrev Poses := List Nat

def Poses.union (p q : Poses) : Poses := q.foldl (fun u x => if u.contains x then u else u ++ [x]) p
def Poses.equal (p q : Poses) : Bool := p.all q.contains && q.all p.contains

mutual
def Node.nullable : Node → Bool
  | .concat xs => allNullable xs
  | .alt xs => anyNullable xs
  | .star _ => true
  | .empty => true
  | .char _ _ => false
def allNullable : List Node → Bool
  | [] => true
  | x :: xs => x.nullable && allNullable xs
def anyNullable : List Node → Bool
  | [] => false
  | x :: xs => x.nullable || anyNullable xs
end

mutual
def Node.firstPos : Node → Poses
  | .concat xs => firstConcat xs
  | .alt xs => firstAlt xs
  | .star x => x.firstPos
  | .empty => []
  | .char _ p => [p]
/-- `for expr: append firstPos; if !nullable break` -/
def firstConcat : List Node → Poses
  | [] => []
  | x :: xs => if x.nullable then x.firstPos ++ firstConcat xs else x.firstPos
def firstAlt : List Node → Poses
  | [] => []
  | x :: xs => x.firstPos ++ firstAlt xs
end

mutual
def Node.lastPos : Node → Poses
  | .concat xs => lastConcat xs
  | .alt xs => lastAlt xs
  | .star x => x.lastPos
  | .empty => []
  | .char _ p => [p]
/-- from the right: prepend lastPos; stop at the first non-nullable operand. Returns (poses, all-to-the-right-nullable). -/
def lastConcat : List Node → Poses
  | [] => []
  | x :: xs => if allNullable xs then x.lastPos ++ lastConcat xs else lastConcat xs
def lastAlt : List Node → Poses
  | [] => []
  | x :: xs => x.lastPos ++ lastAlt xs
end

abbrev FollowMap := List (Nat × Poses)

def FollowMap.get (m : FollowMap) (p : Nat) : Poses :=
  match m with
  | [] => []
  | (k, v) :: rest => if k = p then v else FollowMap.get rest p

def FollowMap.update (m : FollowMap) (p : Nat) (f : Poses → Poses) : FollowMap :=
  match m with
  | [] => [(p, f [])]
  | (k, v) :: rest => if k = p then (k, f v) :: rest else (k, v) :: FollowMap.update rest p f

/-- for operand `x` followed by `rest`: lastPos(x) is followed by firstPos of the next operands while they are nullable -/
def followsOfOperand (m : FollowMap) (x : Node) : List Node → FollowMap
  | [] => m
  | y :: ys =>
    let m' := x.lastPos.foldl (fun acc p => acc.update p (fun cur => Poses.union cur y.firstPos)) m
    if y.nullable then followsOfOperand m' x ys else m'

mutual
def computeFollows (m : FollowMap) : Node → FollowMap
  | .concat xs => followsList (concatPairs m xs) xs
  | .alt xs => followsList m xs
  | .star x =>
    let m' := x.lastPos.foldl (fun acc p => acc.update p (fun cur => cur ++ x.firstPos)) m
    computeFollows m' x
  | .empty => m
  | .char _ _ => m
def followsList (m : FollowMap) : List Node → FollowMap
  | [] => m
  | x :: xs => followsList (computeFollows m x) xs
/-- the `for i … for j …` loop of the Concat case -/
def concatPairs (m : FollowMap) : List Node → FollowMap
  | [] => m
  | x :: xs => concatPairs (followsOfOperand m x xs) xs
end

/-! ### building the tree from a pattern (the second mapper set), then `indexChars` -/

def charsAlt (rs : List Rune) : Node := .alt (rs.map fun r => .char r 0)

def ascii (T : ClassTable) : List Rune := (classRunes T "ASCII").getD []

def quantNode (n : Node) : Quant → Node
  | .opt => .alt [.empty, n]
  | .star => .star n
  | .plus => .concat [n, .star n]
  | .rep lo none => .concat (List.replicate lo n ++ [.star n])
  | .rep lo (some u) => .concat (List.replicate lo n ++ List.replicate (u - lo) (.alt [.empty, n]))

mutual
def ofPat (T : ClassTable) : Pat → Node
  | .any => charsAlt (ascii T)
  | .char c => .char c 0
  | .cls false rs => charsAlt rs
  | .cls true rs => charsAlt ((ascii T).filter fun r => !rs.contains r)
  | .group neg items => charsAlt (groupRunes T neg items)
  | .quant p q _ => quantNode (ofPat T p) q
  | .snil => .concat []
  | .scons a r => .concat (ofPat T a :: ofSpine T r)
  | .alt a b => .alt [ofPat T a, ofPat T b]
/-- the items of a sub-expression (`ToSubexpr` collects them into one `Concat`) -/
def ofSpine (T : ClassTable) : Pat → List Node
  | .scons a r => ofPat T a :: ofSpine T r
  | _ => []
end

-- `indexChars`: number the `Char` leaves from `next` on, left to right
mutual
def index (next : Nat) : Node → Node × Nat
  | .concat xs => let r := indexList next xs; (.concat r.1, r.2)
  | .alt xs => let r := indexList next xs; (.alt r.1, r.2)
  | .star x => let r := index next x; (.star r.1, r.2)
  | .empty => (.empty, next)
  | .char c _ => (.char c next, next + 1)
def indexList (next : Nat) : List Node → List Node × Nat
  | [] => ([], next)
  | x :: xs => let r := index next x; let rs := indexList r.2 xs; (r.1 :: rs.1, rs.2)
end

mutual
def leaves : Node → List (Nat × Rune)
  | .concat xs => leavesList xs
  | .alt xs => leavesList xs
  | .star x => leaves x
  | .empty => []
  | .char c p => [(p, c)]
def leavesList : List Node → List (Nat × Rune)
  | [] => []
  | x :: xs => leaves x ++ leavesList xs
end

structure Tree where
  root : Node
  posChar : List (Nat × Rune)
  follows : FollowMap

/-- `ast.Parse` after the mappers: append the end marker, index, compute followpos. -/
def build (T : ClassTable) (p : Pat) : Tree :=
  let root := (index 1 (.concat [ofPat T p, .char endMarker 0])).1
  { root := root, posChar := leaves root, follows := computeFollows [] root }

def insertNat (x : Nat) : List Nat → List Nat
  | [] => [x]
  | y :: ys => if x < y then x :: y :: ys else if x = y then y :: ys else y :: insertNat x ys

def sortDedup (xs : List Nat) : List Nat := xs.foldl (fun acc x => insertNat x acc) []

/-- `ToDFA` without the final `Minimize`: returns (number of states, accepting states,
    transitions grouped as (from, to, symbols)). States are position sets compared as sets. -/
def toDFA (t : Tree) : Nat × List Nat × List (Nat × Nat × List Rune) := Id.run do
  let symbols := sortDedup ((t.posChar.map (·.2)).filter (· ≠ endMarker))
  let endPos := (t.posChar.filter (·.2 = endMarker)).map (·.1)
  let mut states : Array Poses := #[t.root.firstPos]
  let mut trans : List (Nat × Nat × List Rune) := []
  let mut i := 0
  while i < states.size do
    let S := states[i]!
    let mut row : List (Nat × List Rune) := []
    for c in symbols do
      let U := S.foldl (fun u p => if (t.posChar.find? (·.1 = p)).map (·.2) = some c then Poses.union u (t.follows.get p) else u) []
      let mut j := states.size
      for k in [0:states.size] do
        if j = states.size && Poses.equal states[k]! U then j := k
      if j = states.size then states := states.push U
      row := match row.find? (·.1 = j) with
        | some _ => row.map fun g => if g.1 = j then (g.1, g.2 ++ [c]) else g
        | none => row ++ [(j, [c])]
    trans := trans ++ row.map fun (j, cs) => (i, j, cs)
    i := i + 1
  let finals := (List.range states.size).filter fun k => endPos.any fun f => (states[k]!).contains f
  return (states.size, finals, trans)

end Emerge.Regex.Follow
