import Emerge.Regex.Lang
/-
  The direct (followpos) route of `internal/regex/parser/ast`: the syntax tree `Node` the second
  mapper set builds, `nullable/firstPos/lastPos`, `computeFollows` and `ToDFA` (without the final
  `Minimize`, which is the dependency's) — as the code computes them, with lists for position sets.
  Core Lean only.
-/
namespace Emerge.Regex.Follow
open Emerge Emerge.Regex

def endMarker : Rune := 0xEEEE

inductive Node where
  | concat (xs : List Node)
  | alt (xs : List Node)
  | star (x : Node)
  | empty
  | char (c : Rune) (pos : Nat)
  deriving Repr, Inhabited

abbrev Poses := List Nat

def Poses.union (p q : Poses) : Poses := q.foldl (fun u x => if u.contains x then u else u ++ [x]) p
def Poses.equal (p q : Poses) : Bool := p.all q.contains && q.all p.contains

mutual
def Node.nullable : Node → Bool
  | .concat xs => allNullable xs
  | .alt xs => anyNullable xs
  | .star _ => true
  | .empty => true
  | .char _ _ => false
def allNullable : List Node → Bool
  | [] => true
  | x :: xs => x.nullable && allNullable xs
def anyNullable : List Node → Bool
  | [] => false
  | x :: xs => x.nullable || anyNullable xs
end

mutual
def Node.firstPos : Node → Poses
  | .concat xs => firstConcat xs
  | .alt xs => firstAlt xs
  | .star x => x.firstPos
  | .empty => []
  | .char _ p => [p]
/-- `for expr: append firstPos; if !nullable break` -/
def firstConcat : List Node → Poses
  | [] => []
  | x :: xs => if x.nullable then x.firstPos ++ firstConcat xs else x.firstPos
def firstAlt : List Node → Poses
  | [] => []
  | x :: xs => x.firstPos ++ firstAlt xs
end

mutual
def Node.lastPos : Node → Poses
  | .concat xs => lastConcat xs
  | .alt xs => lastAlt xs
  | .star x => x.lastPos
  | .empty => []
  | .char _ p => [p]
/-- from the right: prepend lastPos; stop at the first non-nullable operand. Returns (poses, all-to-the-right-nullable). -/
def lastConcat : List Node → Poses
  | [] => []
  | x :: xs => if allNullable xs then x.lastPos ++ lastConcat xs else lastConcat xs
def lastAlt : List Node → Poses
  | [] => []
  | x :: xs => x.lastPos ++ lastAlt xs
end

abbrev FollowMap := List (Nat × Poses)

def FollowMap.get (m : FollowMap) (p : Nat) : Poses :=
  match m with
  | [] => []
  | (k, v) :: rest => if k = p then v else FollowMap.get rest p

def FollowMap.update (m : FollowMap) (p : Nat) (f : Poses → Poses) : FollowMap :=
  match m with
  | [] => [(p, f [])]
  | (k, v) :: rest => if k = p then (k, f v) :: rest else (k, v) :: FollowMap.update rest p f

/-- for operand `x` followed by `rest`: lastPos(x) is followed by firstPos of the next operands while they are nullable -/
def followsOfOperand (m : FollowMap) (x : Node) : List Node → FollowMap
  | [] => m
  | y :: ys =>
    let m' := x.lastPos.foldl (fun acc p => acc.update p (fun cur => Poses.union cur y.firstPos)) m
    if y.nullable then followsOfOperand m' x ys else m'

mutual
def computeFollows (m : FollowMap) : Node → FollowMap
  | .concat xs => followsList (concatPairs m xs) xs
  | .alt xs => followsList m xs
  | .star x =>
    let m' := x.lastPos.foldl (fun acc p => acc.update p (fun cur => cur ++ x.firstPos)) m
    computeFollows m' x
  | .empty => m
  | .char _ _ => m
def followsList (m : FollowMap) : List Node → FollowMap
  | [] => m
  | x :: xs => followsList (computeFollows m x) xs
/-- the `for i … for j …` loop of the Concat case -/
def concatPairs (m : FollowMap) : List Node → FollowMap
  | [] => m
  | x :: xs => concatPairs (followsOfOperand m x xs) xs
end

/-! ### building the tree from a pattern (the second mapper set), then `indexChars` -/

def charsAlt (rs : List Rune) : Node := .alt (rs.map fun r => .char r 0)

def ascii (T : ClassTable) : List Rune := (classRunes T "ASCII").getD []

def quantNode (n : Node) : Quant → Node
  | .opt => .alt [.empty, n]
  | .star => .star n
  | .plus => .concat [n, .star n]
  | .rep lo none => .concat (List.replicate lo n ++ [.star n])
  | .rep lo (some u) => .concat (List.replicate lo n ++ List.replicate (u - lo) (.alt [.empty, n]))

mutual
def ofPat (T : ClassTable) : Pat → Node
  | .any => charsAlt (ascii T)
  | .char c => .char c 0
  | .cls false rs => charsAlt rs
  | .cls true rs => charsAlt ((ascii T).filter fun r => !rs.contains r)
  | .group neg items => charsAlt (groupRunes T neg items)
  | .quant p q _ => quantNode (ofPat T p) q
  | .snil => .concat []
  | .scons a r => .concat (ofPat T a :: ofSpine T r)
  | .alt a b => .alt [ofPat T a, ofPat T b]
/-- the items of a sub-expression (`ToSubexpr` collects them into one `Concat`) -/
def ofSpine (T : ClassTable) : Pat → List Node
  | .scons a r => ofPat T a :: ofSpine T r
  | _ => []
end

/-- the item list of a sub-expression ends in `snil` -/
def isSpine : Pat → Bool
  | .snil => true
  | .scons _ _ => true
  | _ => false

/-- every sub-expression is an item list - what the mappers build (`ofPat` reads a sub-expression through `ofSpine`) -/
def spined : Pat → Bool
  | .quant p _ _ => spined p
  | .scons a r => spined a && spined r && isSpine r
  | .alt a b => spined a && spined b
  | _ => true

-- `indexChars`: number the `Char` leaves from `next` on, left to right
mutual
def index (next : Nat) : Node → Node × Nat
  | .concat xs => let r := indexList next xs; (.concat r.1, r.2)
  | .alt xs => let r := indexList next xs; (.alt r.1, r.2)
  | .star x => let r := index next x; (.star r.1, r.2)
  | .empty => (.empty, next)
  | .char c _ => (.char c next, next + 1)
def indexList (next : Nat) : List Node → List Node × Nat
  | [] => ([], next)
  | x :: xs => let r := index next x; let rs := indexList r.2 xs; (r.1 :: rs.1, rs.2)
end

mutual
def leaves : Node → List (Nat × Rune)
  | .concat xs => leavesList xs
  | .alt xs => leavesList xs
  | .star x => leaves x
  | .empty => []
  | .char c p => [(p, c)]
def leavesList : List Node → List (Nat × Rune)
  | [] => []
  | x :: xs => leaves x ++ leavesList xs
end

structure Tree where
  root : Node
  posChar : List (Nat × Rune)
  follows : FollowMap
  /-- `a.lastPos`: the last position handed out by `indexChars` - the position of the end marker -/
  last : Nat

/-- `ast.Parse` after the mappers: append the end marker, index, compute followpos. -/
def build (T : ClassTable) (p : Pat) : Tree :=
  let r := index 1 (.concat [ofPat T p, .char endMarker 0])
  { root := r.1, posChar := leaves r.1, follows := computeFollows [] r.1, last := r.2 - 1 }

def insertNat (x : Nat) : List Nat → List Nat
  | [] => [x]
  | y :: ys => if x < y then x :: y :: ys else if x = y then y :: ys else y :: insertNat x ys

def sortDedup (xs : List Nat) : List Nat := xs.foldl (fun acc x => insertNat x acc) []

/-! ### `ToDFA` without the final `Minimize` (which is the dependency's) -/

/-- `a.posToChar[p]` -/
def Tree.charAt (t : Tree) (p : Nat) : Option Rune := (t.posChar.find? (·.1 = p)).map (·.2)

/-- `U`: the union of followpos(p) for all p in S that correspond to c -/
def stepSet (t : Tree) (S : Poses) (c : Rune) : Poses :=
  S.foldl (fun u p => if t.charAt p = some c then Poses.union u (t.follows.get p) else u) []

/-- `Dstates.Contains(U)`: the index of the first state that is equal to U as a set -/
def findState (states : List Poses) (U : Poses) : Option Nat :=
  match states with
  | [] => none
  | S :: rest => if Poses.equal S U then some 0 else (findState rest U).map (· + 1)

abbrev Trans := List (Nat × Rune × Nat)

/-- one input symbol for the state `S` with number `i`: find or enqueue `U`, add the transition -/
def addSym (t : Tree) (S : Poses) (i : Nat) (acc : List Poses × Trans) (c : Rune) : List Poses × Trans :=
  let U := stepSet t S c
  match findState acc.1 U with
  | some j => (acc.1, acc.2 ++ [(i, c, j)])
  | none => (acc.1 ++ [U], acc.2 ++ [(i, c, acc.1.length)])

/-- the `for S, i := Dstates.Dequeue(); i >= 0; …` loop: the states are processed in the order of their numbers until
    none is left; `none` if the fuel runs out first -/
def explore (t : Tree) (symbols : List Rune) : Nat → Nat → List Poses → Trans → Option (List Poses × Trans)
  | 0, _, _, _ => none
  | fuel + 1, i, states, tr =>
    match states[i]? with
    | none => some (states, tr)
    | some S =>
      let r := symbols.foldl (addSym t S i) (states, tr)
      explore t symbols fuel (i + 1) r.1 r.2

/-- the input symbols: the characters carried by a position other than the end marker's
    (the end marker is told apart by its position, not by its character) -/
def symbolsOf (t : Tree) : List Rune := sortDedup ((t.posChar.filter (·.1 ≠ t.last)).map (·.2))

/-- enough fuel for every set of positions to become a state -/
def dfaFuel (t : Tree) : Nat := 2 ^ t.posChar.length + 1

structure DFA where
  states : List Poses
  trans : Trans

def toDFA? (t : Tree) : Option DFA :=
  (explore t (symbolsOf t) (dfaFuel t) 0 [t.root.firstPos] []).map fun r => ⟨r.1, r.2⟩

/-- the accepting states: those sets of positions that include the position of the end marker -/
def DFA.finals (d : DFA) (t : Tree) : List Nat := (List.range d.states.length).filter fun k => (d.states.getD k []).contains t.last

def lookup (tr : Trans) (i : Nat) (c : Rune) : Option Nat := (tr.find? fun e => e.1 = i ∧ e.2.1 = c).map (·.2.2)

/-- the run of the automaton from state `i` -/
def runD (tr : Trans) : Nat → List Rune → Option Nat
  | i, [] => some i
  | i, c :: w => match lookup tr i c with
    | some j => runD tr j w
    | none => none

def DFA.accepts (d : DFA) (t : Tree) (w : List Rune) : Bool :=
  match runD d.trans 0 w with
  | some j => (d.states.getD j []).contains t.last
  | none => false

/-- rendering: transitions grouped as (from, to, symbols) -/
def groupTrans (n : Nat) (tr : Trans) : List (Nat × Nat × List Rune) :=
  (List.range n).flatMap fun i =>
    let row := (tr.filter (·.1 = i)).foldl (fun (row : List (Nat × List Rune)) e =>
      match row.find? (·.1 = e.2.2) with
      | some _ => row.map fun g => if g.1 = e.2.2 then (g.1, g.2 ++ [e.2.1]) else g
      | none => row ++ [(e.2.2, [e.2.1])]) []
    row.map fun (j, cs) => (i, j, cs)

/-- `ToDFA` without the final `Minimize`: (number of states, accepting states, transitions grouped as (from, to, symbols)) -/
def toDFA (t : Tree) : Option (Nat × List Nat × List (Nat × Nat × List Rune)) :=
  (toDFA? t).map fun d => (d.states.length, d.finals t, groupTrans d.states.length d.trans)

end Emerge.Regex.Follow
