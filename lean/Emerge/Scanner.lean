import Emerge.Base
/-
  Model of a table-driven maximal-munch scanner: the `NextToken` loop of
  `/repo/internal/ebnf/lexer/lexer.go` (and of the emitted lexer), over an abstract rune stream.

  Go code modelled (after the `fix:` commits):
    for curr, next := 0, 0; ; curr = next {
      r, err := in.Next()
      if err != nil { if EOF && curr != 0 { return evalToken(curr) }; return err }
      next = advanceDFA(curr, r)
      if next == errorState { in.Retract(); return evalToken(curr) } }
  evalToken: evalDFA(state) → ERR ⇒ error; WS/EOL/COMMENT ⇒ skipped, NextToken scans on (loop over scanToken);
             otherwise the token.
-/
namespace Emerge.Scanner

/-- How `evalDFA` produces the lexeme of a token. -/
inductive Mode where
  | lit (s : List Rune)   -- `Skip()`, fixed lexeme
  | text                  -- `Lexeme()`
  | inner                 -- `Lexeme()` without its first and last character
  | trimSlash             -- `strings.Trim(Lexeme(), "/")` (only in the unrepaired code)
  deriving DecidableEq, Repr, Inhabited

structure Spec where
  adv : Nat → Rune → Option Nat
  /-- `none` = the ERR fall-through of `evalDFA` -/
  eval : Nat → Option (String × Mode)
  skipped : String → Bool

/-- `run adv s w`: the state reached from `s` along `w`, if every step is defined. -/
def run (adv : Nat → Rune → Option Nat) : Nat → List Rune → Option Nat
  | s, [] => some s
  | s, r :: rs => match adv s r with
    | none => none
    | some s' => run adv s' rs

/-- Follow the automaton from `s` as long as it has a transition.
    Result: state reached, runes consumed, runes left. -/
def munch (adv : Nat → Rune → Option Nat) : Nat → List Rune → Nat × List Rune × List Rune
  | s, [] => (s, [], [])
  | s, r :: rs => match adv s r with
    | none => (s, [], r :: rs)
    | some s' => let res := munch adv s' rs; (res.1, r :: res.2.1, res.2.2)

structure Token where
  kind : String
  lexeme : List Rune
  pos : Pos
  deriving DecidableEq, Repr, Inhabited

inductive End where
  | eof
  | lexErr (pos : Pos) (text : List Rune)
  /-- state 0 evaluates to a token without consuming anything: the Go loop would never end -/
  | stuck
  deriving DecidableEq, Repr, Inhabited

def dropLast {α} : List α → List α
  | [] => []
  | [_] => []
  | x :: y :: r => x :: dropLast (y :: r)

def trimLeft (c : Rune) : List Rune → List Rune
  | [] => []
  | r :: rs => if r = c then trimLeft c rs else r :: rs

def applyMode : Mode → List Rune → List Rune
  | .lit s, _ => s
  | .text, t => t
  | .inner, t => dropLast (t.drop 1)
  | .trimSlash, t => (trimLeft 47 (trimLeft 47 t).reverse).reverse

/-- A maximal run of the automaton, with where it starts. -/
structure Seg where
  state : Nat
  text : List Rune
  pos : Pos
  deriving DecidableEq, Repr, Inhabited

/-- Segmentation of the input: the sequence of maximal runs from state 0. Fuel: one unit per segment. -/
def segments (S : Spec) : Nat → Pos → List Rune → List Seg × End
  | 0, _, _ => ([], .stuck)
  | _ + 1, _, [] => ([], .eof)
  | n + 1, p, r :: rs =>
    let m := munch S.adv 0 (r :: rs)
    if m.2.2 = [] ∧ m.1 = 0 then ([], .eof)     -- input ended with `curr == 0`: io.EOF is returned
    else match S.eval m.1 with
      | none => ([], .lexErr p m.2.1)
      | some _ =>
        if m.2.1 = [] then ([], .stuck)
        else
          let res := segments S n (advPosList p m.2.1) m.2.2
          (⟨m.1, m.2.1, p⟩ :: res.1, res.2)

def tokenOf (S : Spec) (g : Seg) : Option Token :=
  match S.eval g.state with
  | none => none
  | some (k, m) => if S.skipped k then none else some ⟨k, applyMode m g.text, g.pos⟩

/-- The token stream `NextToken` yields when called until it returns an error (EOF or lexical). -/
def scan (S : Spec) (rs : List Rune) : List Token × End :=
  let r := segments S (rs.length + 1) Pos.start rs
  (r.1.filterMap (tokenOf S), r.2)

/-! ### Interpretation of an extracted two-level `switch` table -/

def lookupCases : List (List Nat × Nat) → Nat → Option Nat
  | [], _ => none
  | (rs, nx) :: rest, r => if rs.contains r then some nx else lookupCases rest r

/-- Go semantics: the first outer `case` listing the state is taken; if its inner switch has no
    matching case control leaves both switches (the function then returns the error state). -/
def lookupState : List (List Nat × List (List Nat × Nat)) → Nat → Nat → Option Nat
  | [], _, _ => none
  | (sts, cs) :: rest, s, r => if sts.contains s then lookupCases cs r else lookupState rest s r

def modeOfCode (code : Nat) (lit : String) : Mode :=
  match code with
  | 0 => .lit (lit.toList.map Char.toNat)
  | 1 => .text
  | 2 => .inner
  | _ => .trimSlash

def lookupEval : List (List Nat × String × Nat × String) → Nat → Option (String × Mode)
  | [], _ => none
  | (sts, k, code, lit) :: rest, s =>
    if sts.contains s then some (k, modeOfCode code lit) else lookupEval rest s

end Emerge.Scanner
