import Emerge.Driver.Scan
import Emerge.Driver.Parse
import Emerge.Driver.Spec
import Emerge.Driver.Regex
import Emerge.Driver.ParseEval
import Emerge.Driver.Emitted
import Emerge.Driver.Cli
import Emerge.Driver.Lalr
import Emerge.Driver.Reader
import Emerge.Driver.Typed
/-
  Model driver: one case per input line, one result per output line (same protocol as the Go harness).
-/
open Emerge Emerge.Driver

def dispatch (cmd : String) (fields : List String) : String :=
  match cmd with
  | "scan" => cmdScan fields
  | "scanref" => cmdScanWith (refSpec true) fields
  | "scanref41" => cmdScanWith (refSpec false) fields
  | "refadvance" => cmdRefAdvance fields
  | "advance" => cmdGenAdvance fields
  | "lr" => cmdLr fields
  | "parse" => cmdParse fields
  | "action" => cmdAction fields
  | "goto" => cmdGoto fields
  | "spec" => cmdSpec fields
  | "specfixed" => cmdSpecFixed fields
  | "lreval" => cmdLrEval fields
  | "lrast" => cmdLrAst fields
  | "repat" => cmdRePat fields
  | "renfa" => cmdReNFA fields
  | "respec" => cmdReSpec fields
  | "winner" => cmdWinner fields
  | "emitscan" => cmdEmitScan fields
  | "cli" => cmdCli fields
  | "lalr" => cmdLalrCheck fields
  | "renfafixed" => cmdReNFAFixed fields
  | "reast" => cmdReAST fields
  | "reader" => cmdReader fields
  | "ebnftyped" => cmdEbnfTypedModel fields
  | "readernext" => cmdReaderNext fields
  | _ => "UNKNOWN-COMMAND"

partial def loop (cmd : String) (h : IO.FS.Stream) (out : IO.FS.Stream) : IO Unit := do
  let line ← h.getLine
  if line.isEmpty then return ()
  let l := String.ofList (line.toList.filter (· ≠ (Char.ofNat 10)))
  let fields := (l.splitOn " ").filter (· ≠ "")
  out.putStrLn (dispatch cmd fields)
  loop cmd h out

def main (args : List String) : IO UInt32 := do
  match args with
  | [cmd] =>
    let stdin ← IO.getStdin
    let stdout ← IO.getStdout
    loop cmd stdin stdout
    return 0
  | _ =>
    IO.eprintln "usage: model <command>"
    return 2
