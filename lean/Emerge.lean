import Emerge.Base
import Emerge.CFG
import Emerge.Scanner
import Emerge.Ref.Lexer
