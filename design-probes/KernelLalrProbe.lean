import Probe.Lalr
set_option maxRecDepth 100000 in
theorem tables_are_lalr : LALR.check = true := by decide +kernel
#print axioms tables_are_lalr
