import Probe.GenLexer

namespace Scan

/-- generic interpretation of a switch table: first matching case wins (Go switch semantics, cases are disjoint anyway) -/
def lookupCases : List (List Nat × Nat) → Nat → Option Nat
  | [], _ => none
  | (rs, nx) :: rest, r => if rs.contains r then some nx else lookupCases rest r

def lookupState : List (Nat × List (List Nat × Nat)) → Nat → Nat → Option Nat
  | [], _, _ => none
  | (st, cs) :: rest, s, r => if st == s then lookupCases cs r else lookupState rest s r

def advance (s r : Nat) : Option Nat := lookupState Gen.advanceTable s r

/-- reference: ranges -/
def inR (lo hi r : Nat) : Bool := lo ≤ r && r ≤ hi

def lower (r : Nat) := inR 97 122 r
def upper (r : Nat) := inR 65 90 r
def digit (r : Nat) := inR 48 57 r
def identTail (r : Nat) := lower r || digit r || r == 95
def tokTail (r : Nat) := upper r || digit r || r == 95
def vis (r : Nat) := inR 0x21 0x7E r
def spvis (r : Nat) := inR 0x20 0x7E r

def kw (s r : Nat) (c : Nat) (nx : Nat) : Option Nat :=
  if r == c then some nx else if identTail r then some 40 else none

def ref (s r : Nat) : Option Nat :=
  match s with
  | 0 =>
    if r == 9 || r == 32 then some 1 else
    if r == 10 || r == 13 then some 2 else
    if r == 61 then some 3 else if r == 59 then some 4 else if r == 124 then some 5 else
    if r == 40 then some 6 else if r == 41 then some 7 else if r == 91 then some 8 else
    if r == 93 then some 9 else if r == 123 then some 10 else if r == 125 then some 11 else
    if r == 60 then some 14 else if r == 62 then some 15 else if r == 36 then some 16 else
    if r == 64 then some 18 else if r == 103 then some 32 else
    if lower r then some 39 else if upper r then some 41 else
    if r == 34 then some 43 else if r == 47 then some 47 else none
  | 1 => if r == 9 || r == 32 then some 1 else none
  | 2 => if r == 10 || r == 13 then some 2 else none
  | 10 => if r == 123 then some 12 else none
  | 11 => if r == 125 then some 13 else none
  | 16 => if upper r then some 17 else none
  | 17 => if tokTail r then some 17 else none
  | 18 => if r == 108 then some 19 else if r == 114 then some 23 else if r == 110 then some 28 else none
  | 19 => if r == 101 then some 20 else none
  | 20 => if r == 102 then some 21 else none
  | 21 => if r == 116 then some 22 else none
  | 23 => if r == 105 then some 24 else none
  | 24 => if r == 103 then some 25 else none
  | 25 => if r == 104 then some 26 else none
  | 26 => if r == 116 then some 27 else none
  | 28 => if r == 111 then some 29 else none
  | 29 => if r == 110 then some 30 else none
  | 30 => if r == 101 then some 31 else none
  | 32 => kw s r 114 33
  | 33 => kw s r 97 34
  | 34 => kw s r 109 35
  | 35 => kw s r 109 36
  | 36 => kw s r 97 37
  | 37 => kw s r 114 38
  | 38 => if identTail r then some 40 else none
  | 39 => if identTail r then some 40 else none
  | 40 => if identTail r then some 40 else none
  | 41 => if tokTail r then some 42 else none
  | 42 => if tokTail r then some 42 else none
  | 43 => if r == 92 then some 44 else if vis r && r != 34 then some 45 else none
  | 44 => if vis r then some 45 else none
  | 45 => if r == 92 then some 44 else if r == 34 then some 46 else if vis r then some 45 else none
  | 47 => if r == 92 then some 48 else if r == 47 then some 51 else if r == 42 then some 52 else if spvis r then some 49 else none
  | 48 => if spvis r then some 49 else none
  | 49 => if r == 92 then some 48 else if r == 47 then some 50 else if spvis r then some 49 else none
  | 51 => if r == 9 || spvis r then some 51 else none
  | 52 => if r == 42 then some 53 else if r == 9 || r == 10 || r == 13 || spvis r then some 52 else none
  | 53 => if r == 47 then some 54 else if r == 9 || r == 10 || r == 13 || spvis r then some 52 else none
  | _ => none

/-- all rune literals in the table are below `b` -/
def casesBelow (b : Nat) : List (List Nat × Nat) → Bool
  | [] => true
  | (rs, _) :: rest => rs.all (· < b) && casesBelow b rest

def tableBelow (b : Nat) : List (Nat × List (List Nat × Nat)) → Bool
  | [] => true
  | (_, cs) :: rest => casesBelow b cs && tableBelow b rest

theorem lookupCases_none_of_below (b r : Nat) (h : b ≤ r) :
    ∀ cs, casesBelow b cs = true → lookupCases cs r = none := by
  intro cs
  induction cs with
  | nil => intro _; rfl
  | cons c rest ih =>
    obtain ⟨rs, nx⟩ := c
    intro hb
    simp only [casesBelow, Bool.and_eq_true, List.all_eq_true, decide_eq_true_eq] at hb
    have : rs.contains r = false := by
      apply Bool.eq_false_iff.mpr
      intro hc
      have hm : r ∈ rs := by simpa using hc
      have := hb.1 r hm
      omega
    simp only [lookupCases, this, ih hb.2]
    simp

theorem lookupState_none_of_below (b r : Nat) (h : b ≤ r) :
    ∀ t s, tableBelow b t = true → lookupState t s r = none := by
  intro t
  induction t with
  | nil => intro _ _; rfl
  | cons c rest ih =>
    obtain ⟨st, cs⟩ := c
    intro s hb
    simp only [tableBelow, Bool.and_eq_true] at hb
    unfold lookupState
    split
    · exact lookupCases_none_of_below b r h cs hb.1
    · exact ih s hb.2

theorem table_below_128 : tableBelow 128 Gen.advanceTable = true := by decide +kernel


theorem ref_none_of_state_ge (s r : Nat) (h : 54 ≤ s) : ref s r = none := by
  unfold ref
  split <;> first | omega | rfl

theorem finite_agree : ∀ s, s < 54 → ∀ r, r < 128 → advance s r = ref s r := by decide +kernel

end Scan
