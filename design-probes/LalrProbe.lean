import Probe.GenTables
namespace LALR

inductive Sym | t (n : Nat) | nt (n : Nat) deriving DecidableEq, Repr

abbrev Prod := Nat × List Sym

def T := Sym.t
def N := Sym.nt

/- terminals: 0 "=",1 ";",2 "|",3 "(",4 ")",5 "[",6 "]",7 "{",8 "}",9 "{{",10 "}}",11 "<",12 ">",13 grammar,
   14 @left,15 @right,16 @none,17 IDENT,18 TOKEN,19 STRING,20 REGEX,21 PREDEF,22 $
   nonterminals: 0 grammar,1 name,2 decls,3 decl,4 semi_opt,5 token,6 directive,7 handles,8 rule_handle,9 rule,
   10 lhs,11 rhs,12 nonterm,13 term, 14 S' -/
def prods : List Prod := [
  (0, [N 1, N 2]), (1, [T 13, T 17, N 4]), (2, [N 2, N 3]), (2, []), (3, [N 5, N 4]), (3, [N 6, N 4]),
  (3, [N 9, T 1]), (4, [T 1]), (4, []), (5, [T 18, T 0, T 19]), (5, [T 18, T 0, T 20]), (5, [T 18, T 0, T 21]),
  (6, [T 14, N 7]), (6, [T 15, N 7]), (6, [T 16, N 7]), (7, [N 7, N 13]), (7, [N 7, N 8]), (7, [N 13]), (7, [N 8]),
  (8, [T 11, N 9, T 12]), (9, [N 10, T 0, N 11]), (9, [N 10, T 0]), (10, [N 12]), (11, [N 11, N 11]),
  (11, [T 3, N 11, T 4]), (11, [T 5, N 11, T 6]), (11, [T 7, N 11, T 8]), (11, [T 9, N 11, T 10]),
  (11, [N 11, T 2, N 11]), (11, [N 11, T 2]), (11, [N 12]), (11, [N 13]), (12, [T 17]), (13, [T 18]), (13, [T 19]),
  (14, [N 0]) ]

def augIdx : Nat := 35
def eofT : Nat := 22
def nNT : Nat := 15

def body (p : Nat) : List Sym := (prods.getD p (0, [])).2
def headOf (p : Nat) : Nat := (prods.getD p (0, [])).1

def bit (a : Nat) : Nat := 1 <<< a
def has (m a : Nat) : Bool := (m >>> a) % 2 == 1

/-- nullable flags per nonterminal, by fuel iteration -/
def nullStep (nl : List Bool) : List Bool :=
  (List.range nNT).map fun A =>
    nl.getD A false || prods.any fun (h, b) => h == A && b.all fun s => match s with
      | .t _ => false
      | .nt B => nl.getD B false

def iter {α} (f : α → α) : Nat → α → α
  | 0, x => x
  | n+1, x => iter f n (f x)

def nullable : List Bool := iter nullStep nNT (List.replicate nNT false)

def firstOfBody (fs : List Nat) : List Sym → Nat
  | [] => 0
  | .t a :: _ => bit a
  | .nt B :: rest => fs.getD B 0 ||| (if nullable.getD B false then firstOfBody fs rest else 0)

def firstStep (fs : List Nat) : List Nat :=
  (List.range nNT).map fun A =>
    prods.foldl (fun acc (h, b) => if h == A then acc ||| firstOfBody fs b else acc) (fs.getD A 0)

def first : List Nat := iter firstStep nNT (List.replicate nNT 0)

/-- FIRST(β · la-set) -/
def firstLA : List Sym → Nat → Nat
  | [], la => la
  | .t a :: _, _ => bit a
  | .nt B :: rest, la => first.getD B 0 ||| (if nullable.getD B false then firstLA rest la else 0)

abbrev Item := Nat × Nat × Nat   -- prod, dot, lookahead mask

def addItem : List Item → Item → List Item × Bool
  | [], it => ([it], true)
  | (p, d, m) :: rest, (p', d', m') =>
    if p == p' && d == d' then
      let m2 := m ||| m'
      ((p, d, m2) :: rest, m2 != m)
    else
      let (r, c) := addItem rest (p', d', m')
      ((p, d, m) :: r, c)

def addAll (items : List Item) (new : List Item) : List Item × Bool :=
  new.foldl (fun (acc, c) it => let (a, c') := addItem acc it; (a, c || c')) (items, false)

def derived (it : Item) : List Item :=
  let (p, d, m) := it
  match (body p).drop d with
  | .nt B :: rest =>
    let la := firstLA rest m
    (List.range prods.length).filterMap fun q => if headOf q == B then some (q, 0, la) else none
  | _ => []

def closurePass (items : List Item) : List Item × Bool :=
  items.foldl (fun (acc, c) it => let (a, c') := addAll acc (derived it); (a, c || c')) (items, false)

def closure : Nat → List Item → List Item
  | 0, items => items
  | n+1, items => let (it', c) := closurePass items; if c then closure n it' else it'

def symAfterDot (it : Item) : Option Sym := ((body it.1).drop it.2.1).head?

def insertSorted (it : Item) : List Item → List Item
  | [] => [it]
  | x :: xs => if it.1 < x.1 || (it.1 == x.1 && it.2.1 ≤ x.2.1) then it :: x :: xs else x :: insertSorted it xs

def sortItems (l : List Item) : List Item := l.foldl (fun acc it => insertSorted it acc) []

def gotoK (cl : List Item) (X : Sym) : List Item :=
  sortItems (cl.filterMap fun it => if symAfterDot it == some X then some (it.1, it.2.1 + 1, it.2.2) else none)

def core (k : List Item) : List (Nat × Nat) := k.map fun it => (it.1, it.2.1)

def allSyms : List Sym := (List.range 23).map Sym.t ++ (List.range 14).map Sym.nt

/-- merge kernel `k` into state list; returns (states, changed, index) -/
def mergeKernel : List (List Item) → List Item → List (List Item) × Bool
  | [], k => ([k], true)
  | s :: rest, k =>
    if core s == core k then
      let (s', c) := addAll s k
      (s' :: rest, c)
    else
      let (r, c) := mergeKernel rest k
      (s :: r, c)

def sweep (states : List (List Item)) : List (List Item) × Bool :=
  (List.range states.length).foldl (fun (sts, c) i =>
    let cl := closure 40 (sts.getD i [])
    allSyms.foldl (fun (sts, c) X =>
      let k := gotoK cl X
      if k.isEmpty then (sts, c) else
      let (s', c') := mergeKernel sts k
      (s', c || c')) (sts, c)) (states, false)

def build : Nat → List (List Item) → List (List Item)
  | 0, s => s
  | n+1, s => let (s', c) := sweep s; if c then build n s' else s'

def kernels : List (List Item) := build 60 [[(augIdx, 0, bit eofT)]]

def findCore (k : List Item) : Option Nat := kernels.findIdx? fun s => core s == core k

/-- raw action cells: (state, terminal, kind, param) possibly conflicting -/
def rawActions : List (Nat × Nat × Nat × Nat) :=
  (List.range kernels.length).flatMap fun i =>
    let cl := closure 40 (kernels.getD i [])
    let shifts := (List.range 23).filterMap fun a =>
      let k := gotoK cl (.t a)
      if k.isEmpty then none else (findCore k).map fun j => (i, a, 0, j)
    let reduces := cl.flatMap fun (p, d, m) =>
      if d == (body p).length then
        if p == augIdx then [(i, eofT, 2, 0)]
        else (List.range 23).filterMap fun a => if has m a then some (i, a, 1, p) else none
      else []
    shifts ++ reduces

def rawGotos : List (Nat × Nat × Nat) :=
  (List.range kernels.length).flatMap fun i =>
    let cl := closure 40 (kernels.getD i [])
    (List.range 14).filterMap fun A =>
      let k := gotoK cl (.nt A)
      if k.isEmpty then none else (findCore k).map fun j => (i, A, j)

/- precedence: levels of handles; handle = inl terminal | inr production -/
inductive Assoc | none | left | right deriving DecidableEq
def levels : List (Assoc × List (Nat ⊕ Nat)) := [
  (.left, [.inr 23]),
  (.left, [.inl 3, .inl 5, .inl 7, .inl 9, .inl 17, .inl 18, .inl 19]),
  (.right, [.inl 2]),
  (.none, [.inl 0]),
  (.none, [.inl 14, .inl 15, .inl 16]) ]

def handleOf (a : Nat) (kind param : Nat) : Nat ⊕ Nat :=
  if kind == 0 then .inl a else
    match (body param).findSome? fun s => match s with | .t x => some x | _ => none with
    | some x => .inl x
    | none => .inr param

def levelOf (h : Nat ⊕ Nat) : Option (Nat × Assoc) :=
  (levels.zipIdx.findSome? fun ((as, hs), i) => if hs.contains h then some (i, as) else none)

/-- some true: x beats y -/
def beats (a : Nat) (x y : Nat × Nat) : Option Bool :=
  match levelOf (handleOf a x.1 x.2), levelOf (handleOf a y.1 y.2) with
  | some (i, as), some (j, _) =>
    if i < j then some true else if j < i then some false else
    match as with
    | .none => none
    | .left => if x.1 == 1 && y.1 == 0 then some true else if x.1 == 0 && y.1 == 1 then some false else none
    | .right => if x.1 == 0 && y.1 == 1 then some true else if x.1 == 1 && y.1 == 0 then some false else none
  | _, _ => none

def resolveCell (a : Nat) (acts : List (Nat × Nat)) : Option (Nat × Nat) :=
  acts.find? fun x => acts.all fun y => x == y || beats a x y == some true

def dedup {α} [BEq α] (l : List α) : List α := l.foldl (fun acc x => if acc.contains x then acc else acc ++ [x]) []

/-- resolved table or none on unresolved conflict -/
def actions : Option (List (Nat × Nat × Nat × Nat)) :=
  let cells := dedup (rawActions.map fun (s, a, _, _) => (s, a))
  cells.foldl (fun acc (s, a) =>
    match acc with
    | none => none
    | some l =>
      let acts := dedup (rawActions.filterMap fun (s', a', k, p) => if s' == s && a' == a then some (k, p) else none)
      match resolveCell a acts with
      | some (k, p) => some (l ++ [(s, a, k, p)])
      | none => none) (some [])

/-- renaming gen-state → my-state by BFS over shift/goto edges from 0 -/
def genEdges (s : Nat) : List (Sym × Nat) :=
  (GenT.actions.filterMap fun (s', a, k, p) => if s' == s && k == 0 then some (Sym.t a, p) else none) ++
  (GenT.gotos.filterMap fun (s', A, j) => if s' == s then some (Sym.nt A, j) else none)

def myEdges (acts : List (Nat × Nat × Nat × Nat)) (s : Nat) : List (Sym × Nat) :=
  (acts.filterMap fun (s', a, k, p) => if s' == s && k == 0 then some (Sym.t a, p) else none) ++
  (rawGotos.filterMap fun (s', A, j) => if s' == s then some (Sym.nt A, j) else none)

def bfs (acts : List (Nat × Nat × Nat × Nat)) : Nat → List (Nat × Nat) → List (Nat × Nat) → List (Nat × Nat)
  | 0, _, ren => ren
  | _, [], ren => ren
  | n+1, (g, m) :: todo, ren =>
    let me := myEdges acts m
    let new := (genEdges g).filterMap fun (X, g') =>
      match me.find? (·.1 == X) with
      | some (_, m') => if ren.any (·.1 == g') then none else some (g', m')
      | none => none
    let new := dedup new
    bfs acts n (todo ++ new) (ren ++ new.filter fun x => !(ren.any (·.1 == x.1)))

def check : Bool :=
  match actions with
  | none => false
  | some acts =>
    let ren := bfs acts 200 [(0, 0)] [(0, 0)]
    let r := fun g => (ren.find? (·.1 == g)).map (·.2)
    let genA := GenT.actions.map fun (s, a, k, p) => (r s, a, k, if k == 0 then r p else some p)
    let myA := acts.map fun (s, a, k, p) => (some s, a, k, some p)
    let genG := GenT.gotos.map fun (s, A, j) => (r s, A, r j)
    let myG := rawGotos.map fun (s, A, j) => (some s, A, some j)
    genA.length == myA.length && genA.all myA.contains && myA.all genA.contains &&
    genG.length == myG.length && genG.all myG.contains && myG.all genG.contains

end LALR
