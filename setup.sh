#!/bin/sh
# Builds the framework from files on disk only (offline): translator, harness (from /repo's
# working tree, via overlay), regenerated Lean tables, the whole Lean library (all proofs) and
# the model driver.  Checks rebuild what depends on /repo themselves; this only warms the caches.
set -u
cd "$(dirname "$0")"
export GOFLAGS=-mod=mod GOPROXY=off
unset GOSUMDB || true
mkdir -p build evidence replays lean/Emerge/Gen
python3 build_overlay.py >/dev/null
(cd tools/extract && GOTOOLCHAIN=local go build -o ../../build/extract .) || { echo "setup: translator build failed"; exit 1; }
build/extract /repo lean/Emerge/Gen || echo "setup: extraction reported failures (checks will report them)"
(cd /repo && go build -tags verif -overlay /verif/build/overlay.json -o /verif/build/harness ./internal/zzverif/harness) || echo "setup: harness build failed (checks will report it)"
(cd lean && lake build 2>&1 | tail -5) || echo "setup: lake build reported failures (checks will report them)"
exit 0
