package main

import (
	"os"
	"sort"
	"go/ast"
	"go/printer"
	"go/token"
	"path/filepath"
	"strings"
)

// Loops whose iteration order is not fixed by the language or is delegated to a collection of the dependency:
// `range` over a map-typed local (declared with make(map…) or a map literal, or the result of a call documented to
// return a map), over `X.All()` / `X.Transitions()` of a dependency collection, in the packages anchored by C15.

func init() {
	extraJobs = append(extraJobs, job{"unordered", "Unordered.lean", extractUnordered})
}

func exprText(e ast.Expr) string {
	var b strings.Builder
	printer.Fprint(&b, token.NewFileSet(), e)
	return b.String()
}

func extractUnordered(repo string) string {
	// every non-test file of the tool (the developer-only table generator and the verification hooks excluded)
	var files []string
	for _, root := range []string{"cmd", "internal"} {
		filepath.Walk(filepath.Join(repo, root), func(p string, info os.FileInfo, err error) error {
			if err != nil || info.IsDir() {
				return nil
			}
			rel, _ := filepath.Rel(repo, p)
			if !strings.HasSuffix(p, ".go") || strings.HasSuffix(p, "_test.go") || strings.HasPrefix(rel, "internal/ebnf/parser/generate/") || strings.Contains(rel, "zz_verif") || strings.HasPrefix(rel, "internal/zzverif/") {
				return nil
			}
			files = append(files, rel)
			return nil
		})
	}
	sort.Strings(files)
	type loop struct{ file, fn, expr, kind string }
	var loops []loop
	// first pass: named map types and map-typed struct fields, per package directory
	namedMaps := map[string]map[string]bool{}
	mapFields := map[string]map[string]bool{}
	isMapType := func(dir string, e ast.Expr) bool {
		switch x := e.(type) {
		case *ast.MapType:
			return true
		case *ast.Ident:
			return namedMaps[dir][x.Name]
		case *ast.StarExpr:
			if id, ok := x.X.(*ast.Ident); ok {
				return namedMaps[dir][id.Name]
			}
		}
		return false
	}
	parsed := map[string]*ast.File{}
	for _, rel := range files {
		_, f := parseFile(filepath.Join(repo, rel))
		parsed[rel] = f
		dir := filepath.Dir(rel)
		if namedMaps[dir] == nil {
			namedMaps[dir] = map[string]bool{}
			mapFields[dir] = map[string]bool{}
		}
		for _, d := range f.Decls {
			gd, ok := d.(*ast.GenDecl)
			if !ok {
				continue
			}
			for _, sp := range gd.Specs {
				if ts, ok := sp.(*ast.TypeSpec); ok {
					if _, ok := ts.Type.(*ast.MapType); ok {
						namedMaps[dir][ts.Name.Name] = true
					}
				}
			}
		}
	}
	for _, rel := range files {
		dir := filepath.Dir(rel)
		for _, d := range parsed[rel].Decls {
			gd, ok := d.(*ast.GenDecl)
			if !ok {
				continue
			}
			for _, sp := range gd.Specs {
				ts, ok := sp.(*ast.TypeSpec)
				if !ok {
					continue
				}
				if st, ok := ts.Type.(*ast.StructType); ok {
					for _, fl := range st.Fields.List {
						if isMapType(dir, fl.Type) {
							for _, n := range fl.Names {
								mapFields[dir][n.Name] = true
							}
						}
					}
				}
			}
		}
	}
	for _, rel := range files {
		dir := filepath.Dir(rel)
		f := parsed[rel]
		// package-level variables of map type
		pkgMaps := map[string]bool{}
		for _, d := range f.Decls {
			if gd, ok := d.(*ast.GenDecl); ok {
				for _, sp := range gd.Specs {
					if vs, ok := sp.(*ast.ValueSpec); ok {
						for i, n := range vs.Names {
							if vs.Type != nil && isMapType(dir, vs.Type) {
								pkgMaps[n.Name] = true
							}
							if i < len(vs.Values) {
								if cl, ok := vs.Values[i].(*ast.CompositeLit); ok && cl.Type != nil && isMapType(dir, cl.Type) {
									pkgMaps[n.Name] = true
								}
							}
						}
					}
				}
			}
		}
		for _, d := range f.Decls {
			fd, ok := d.(*ast.FuncDecl)
			if !ok || fd.Body == nil {
				continue
			}
			// receiver, parameters and locals of map type
			maps := map[string]bool{}
			for k := range pkgMaps {
				maps[k] = true
			}
			addFields := func(fl *ast.FieldList) {
				if fl == nil {
					return
				}
				for _, p := range fl.List {
					if isMapType(dir, p.Type) {
						for _, n := range p.Names {
							maps[n.Name] = true
						}
					}
				}
			}
			addFields(fd.Recv)
			addFields(fd.Type.Params)
			ast.Inspect(fd.Body, func(n ast.Node) bool {
				switch as := n.(type) {
				case *ast.AssignStmt:
					for i, r := range as.Rhs {
						isMap := false
						switch x := r.(type) {
						case *ast.CallExpr:
							if id, ok := x.Fun.(*ast.Ident); ok && id.Name == "make" && len(x.Args) > 0 {
								isMap = isMapType(dir, x.Args[0])
							}
						case *ast.CompositeLit:
							isMap = x.Type != nil && isMapType(dir, x.Type)
						}
						if isMap && i < len(as.Lhs) {
							if id, ok := as.Lhs[i].(*ast.Ident); ok {
								maps[id.Name] = true
							}
						}
					}
				case *ast.DeclStmt:
					if gd, ok := as.Decl.(*ast.GenDecl); ok {
						for _, sp := range gd.Specs {
							if vs, ok := sp.(*ast.ValueSpec); ok && vs.Type != nil && isMapType(dir, vs.Type) {
								for _, n := range vs.Names {
									maps[n.Name] = true
								}
							}
						}
					}
				}
				return true
			})
			ast.Inspect(fd.Body, func(n ast.Node) bool {
				rs, ok := n.(*ast.RangeStmt)
				if !ok {
					return true
				}
				txt := exprText(rs.X)
				kind := ""
				if id, ok := rs.X.(*ast.Ident); ok && maps[id.Name] {
					kind = "map"
				} else if se, ok := rs.X.(*ast.SelectorExpr); ok && mapFields[dir][se.Sel.Name] {
					kind = "map"
				} else if strings.HasSuffix(txt, ".All()") || strings.HasSuffix(txt, ".Transitions()") || strings.HasSuffix(txt, ".AnyMatch()") {
					kind = "collection"
				} else if id, ok := rs.X.(*ast.Ident); ok && (id.Name == "stateMap" || id.Name == "termMap" || id.Name == "emojis") {
					kind = "map"
				}
				if kind != "" {
					loops = append(loops, loop{rel, fd.Name.Name, txt, kind})
				}
				return true
			})
		}
	}
	var b strings.Builder
	b.WriteString("-- GENERATED by /verif/tools/extract: loops over maps and dependency collections in the packages anchored by C15; do not edit\nnamespace Emerge.Gen.Unordered\n\n")
	b.WriteString("/-- (file, enclosing function, ranged expression, kind) -/\ndef loops : List (String × String × String × String) := [\n")
	for i, l := range loops {
		sep := ","
		if i == len(loops)-1 {
			sep = ""
		}
		b.WriteString("  (" + leanStr(l.file) + ", " + leanStr(l.fn) + ", " + leanStr(l.expr) + ", " + leanStr(l.kind) + ")" + sep + "\n")
	}
	b.WriteString("]\n\nend Emerge.Gen.Unordered\n")
	return b.String()
}
