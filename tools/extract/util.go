package main

import "strconv"

func strconvUnquote(s string) (string, error) { return strconv.Unquote(s) }

func moreJobs() []job { return extraJobs }

var extraJobs []job
