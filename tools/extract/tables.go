package main

import (
	"fmt"
	"go/ast"
	"go/token"
	"path/filepath"
	"strings"
)

// grammarCopy is one textual copy of the EBNF grammar (terminals, non-terminals, productions, precedences, start).
type gsym struct {
	term bool
	name string
}
type gprod struct {
	head string
	body []gsym
}
type ghandle struct {
	isProd bool
	term   string
	prod   gprod
}
type glevel struct {
	assoc   string
	handles []ghandle
}
type grammarCopy struct {
	terminals, nonTerminals []string
	prods                   []gprod
	levels                  []glevel
	start                   string
}

func varValue(f *ast.File, name string) ast.Expr {
	for _, d := range f.Decls {
		gd, ok := d.(*ast.GenDecl)
		if !ok || gd.Tok != token.VAR {
			continue
		}
		for _, sp := range gd.Specs {
			vs := sp.(*ast.ValueSpec)
			for i, n := range vs.Names {
				if n.Name == name && i < len(vs.Values) {
					return vs.Values[i]
				}
			}
		}
	}
	failf("variable %s not found", name)
	return nil
}

func stringList(e ast.Expr) []string {
	cl, ok := e.(*ast.CompositeLit)
	if !ok {
		failf("expected composite literal")
	}
	var out []string
	for _, el := range cl.Elts {
		out = append(out, strLit(el))
	}
	return out
}

func readSym(e ast.Expr) gsym {
	call, ok := e.(*ast.CallExpr)
	if !ok || len(call.Args) != 1 {
		failf("symbol: expected conversion call, got %s", exprStr(e))
	}
	switch exprStr(call.Fun) {
	case "grammar.Terminal":
		return gsym{true, strLit(call.Args[0])}
	case "grammar.NonTerminal":
		return gsym{false, strLit(call.Args[0])}
	}
	failf("symbol: unknown conversion %s", exprStr(call.Fun))
	return gsym{}
}

func readBody(e ast.Expr) []gsym {
	if exprStr(e) == "grammar.E" {
		return nil
	}
	cl, ok := e.(*ast.CompositeLit)
	if !ok || exprStr(cl.Type) != "grammar.String[grammar.Symbol]" {
		failf("body: unexpected expression %s", exprStr(e))
	}
	var out []gsym
	for _, el := range cl.Elts {
		out = append(out, readSym(el))
	}
	return out
}

func readProd(cl *ast.CompositeLit) gprod {
	var p gprod
	seen := 0
	for _, el := range cl.Elts {
		kv, ok := el.(*ast.KeyValueExpr)
		if !ok {
			failf("production: non key-value element")
		}
		switch identName(kv.Key) {
		case "Head":
			p.head = strLit(kv.Value)
			seen |= 1
		case "Body":
			p.body = readBody(kv.Value)
			seen |= 2
		default:
			failf("production: unknown field %s", exprStr(kv.Key))
		}
	}
	if seen != 3 {
		failf("production: missing field")
	}
	return p
}

func readGrammarCopy(f *ast.File) grammarCopy {
	var g grammarCopy
	g.terminals = stringList(varValue(f, "terminals"))
	g.nonTerminals = stringList(varValue(f, "nonTerminals"))
	pl, ok := varValue(f, "productions").(*ast.CompositeLit)
	if !ok {
		failf("productions: not a composite literal")
	}
	for _, el := range pl.Elts {
		cl, ok := el.(*ast.CompositeLit)
		if !ok {
			failf("productions: element %s", exprStr(el))
		}
		g.prods = append(g.prods, readProd(cl))
	}
	gc, ok := varValue(f, "G").(*ast.CallExpr)
	if !ok || exprStr(gc.Fun) != "grammar.NewCFG" || len(gc.Args) != 4 ||
		exprStr(gc.Args[0]) != "terminals" || exprStr(gc.Args[1]) != "nonTerminals" || exprStr(gc.Args[2]) != "productions" {
		failf("G: unexpected shape %s", exprStr(varValue(f, "G")))
	}
	g.start = strLit(gc.Args[3])
	lv, ok := varValue(f, "precedences").(*ast.CompositeLit)
	if !ok || exprStr(lv.Type) != "lr.PrecedenceLevels" {
		failf("precedences: unexpected shape")
	}
	for _, el := range lv.Elts {
		cl, ok := el.(*ast.CompositeLit)
		if !ok {
			failf("precedences: element shape")
		}
		var l glevel
		for _, e2 := range cl.Elts {
			kv := e2.(*ast.KeyValueExpr)
			switch identName(kv.Key) {
			case "Associativity":
				l.assoc = exprStr(kv.Value)
			case "Handles":
				call, ok := kv.Value.(*ast.CallExpr)
				if !ok || exprStr(call.Fun) != "lr.NewPrecedenceHandles" {
					failf("precedences: handles shape")
				}
				for _, a := range call.Args {
					hc, ok := a.(*ast.CallExpr)
					if !ok || len(hc.Args) != 1 {
						failf("precedences: handle shape")
					}
					switch exprStr(hc.Fun) {
					case "lr.PrecedenceHandleForTerminal":
						l.handles = append(l.handles, ghandle{term: strLit(hc.Args[0])})
					case "lr.PrecedenceHandleForProduction":
						u, ok := hc.Args[0].(*ast.UnaryExpr)
						if !ok || u.Op != token.AND {
							failf("precedences: production handle shape")
						}
						l.handles = append(l.handles, ghandle{isProd: true, prod: readProd(u.X.(*ast.CompositeLit))})
					default:
						failf("precedences: unknown handle constructor %s", exprStr(hc.Fun))
					}
				}
			default:
				failf("precedences: unknown field")
			}
		}
		g.levels = append(g.levels, l)
	}
	return g
}

func indexOf(xs []string, s string) int {
	for i, x := range xs {
		if x == s {
			return i
		}
	}
	return -1
}

func (g grammarCopy) symIdx(s gsym) string {
	if s.term {
		i := indexOf(g.terminals, s.name)
		if i < 0 {
			failf("terminal %q not in terminals list", s.name)
		}
		return fmt.Sprintf(".t %d", i)
	}
	i := indexOf(g.nonTerminals, s.name)
	if i < 0 {
		failf("non-terminal %q not in nonTerminals list", s.name)
	}
	return fmt.Sprintf(".nt %d", i)
}

func (g grammarCopy) prodLean(p gprod) string {
	h := indexOf(g.nonTerminals, p.head)
	if h < 0 {
		failf("head %q not in nonTerminals list", p.head)
	}
	var bs []string
	for _, s := range p.body {
		bs = append(bs, g.symIdx(s))
	}
	return fmt.Sprintf("(%d, [%s])", h, strings.Join(bs, ", "))
}

func (g grammarCopy) lean(name string) string {
	var b strings.Builder
	q := func(xs []string) string {
		var o []string
		for _, x := range xs {
			o = append(o, leanStr(x))
		}
		return strings.Join(o, ", ")
	}
	fmt.Fprintf(&b, "def %s : GrammarCopy := {\n", name)
	fmt.Fprintf(&b, "  terminals := [%s],\n", q(g.terminals))
	fmt.Fprintf(&b, "  nonTerminals := [%s],\n", q(g.nonTerminals))
	b.WriteString("  prods := [\n")
	for i, p := range g.prods {
		sep := ","
		if i == len(g.prods)-1 {
			sep = ""
		}
		fmt.Fprintf(&b, "    %s%s\n", g.prodLean(p), sep)
	}
	b.WriteString("  ],\n")
	si := indexOf(g.nonTerminals, g.start)
	if si < 0 {
		failf("start symbol %q unknown", g.start)
	}
	fmt.Fprintf(&b, "  start := %d,\n", si)
	b.WriteString("  levels := [\n")
	for i, l := range g.levels {
		as := map[string]string{"lr.LEFT": ".left", "lr.RIGHT": ".right", "lr.NONE": ".none"}[l.assoc]
		if as == "" {
			failf("unknown associativity %s", l.assoc)
		}
		var hs []string
		for _, h := range l.handles {
			if h.isProd {
				hs = append(hs, ".prod "+g.prodLean(h.prod))
			} else {
				ti := indexOf(g.terminals, h.term)
				if ti < 0 {
					failf("precedence terminal %q unknown", h.term)
				}
				hs = append(hs, fmt.Sprintf(".term %d", ti))
			}
		}
		sep := ","
		if i == len(g.levels)-1 {
			sep = ""
		}
		fmt.Fprintf(&b, "    (%s, [%s])%s\n", as, strings.Join(hs, ", "), sep)
	}
	b.WriteString("  ] }\n\n")
	return b.String()
}

func extractTables(repo string) string {
	path := filepath.Join(repo, "internal/ebnf/parser/parsing_table.go")
	_, f := parseFile(path)
	g := readGrammarCopy(f)
	var b strings.Builder
	b.WriteString("-- GENERATED by /verif/tools/extract from /repo/internal/ebnf/parser; do not edit\nimport Emerge.CFG\nnamespace Emerge.Gen.Tables\nopen Emerge\n\n")
	b.WriteString(g.lean("tableFile"))

	// ACTION
	act := funcDecl(f, "ACTION")
	rows := readSwitch2(act)
	last := stmtStr(act.Body.List[1])
	if !strings.HasPrefix(last, "return lr.ERROR,-1,fmt.Errorf(") {
		failf("ACTION: final statement %q", last)
	}
	eof := len(g.terminals)
	b.WriteString("/-- (state, terminal index (|terminals| = end marker), kind 0 shift / 1 reduce / 2 accept, parameter) -/\ndef actions : List (Nat × Nat × Nat × Nat) := [\n")
	var out []string
	for _, oc := range rows {
		for _, ic := range oc.inner {
			if len(ic.ret.Results) != 3 || exprStr(ic.ret.Results[2]) != "nil" {
				failf("ACTION: return shape")
			}
			kind := map[string]int{"lr.SHIFT": 0, "lr.REDUCE": 1, "lr.ACCEPT": 2}
			k, ok := kind[exprStr(ic.ret.Results[0])]
			if !ok {
				failf("ACTION: unknown action type %s", exprStr(ic.ret.Results[0]))
			}
			p := intLit(ic.ret.Results[1])
			for _, st := range oc.labels {
				for _, l := range ic.labels {
					var t int
					if exprStr(l) == "grammar.Endmarker" {
						t = eof
					} else {
						t = indexOf(g.terminals, strLit(l))
						if t < 0 {
							failf("ACTION: terminal %s not in terminals list", exprStr(l))
						}
					}
					out = append(out, fmt.Sprintf("  (%d, %d, %d, %d)", st, t, k, p))
				}
			}
		}
	}
	b.WriteString(strings.Join(out, ",\n"))
	b.WriteString("\n]\n\n")

	gt := funcDecl(f, "GOTO")
	rows = readSwitch2(gt)
	if s := stmtStr(gt.Body.List[1]); s != "return -1" {
		failf("GOTO: final statement %q", s)
	}
	b.WriteString("/-- (state, non-terminal index, next state) -/\ndef gotos : List (Nat × Nat × Nat) := [\n")
	out = nil
	for _, oc := range rows {
		for _, ic := range oc.inner {
			if len(ic.ret.Results) != 1 {
				failf("GOTO: return shape")
			}
			nx := intLit(ic.ret.Results[0])
			for _, st := range oc.labels {
				for _, l := range ic.labels {
					n := indexOf(g.nonTerminals, strLit(l))
					if n < 0 {
						failf("GOTO: non-terminal %s unknown", exprStr(l))
					}
					out = append(out, fmt.Sprintf("  (%d, %d, %d)", st, n, nx))
				}
			}
		}
	}
	b.WriteString(strings.Join(out, ",\n"))
	b.WriteString("\n]\n\n")

	// the generator's own variables and the header template it prints
	gpath := filepath.Join(repo, "internal/ebnf/parser/generate/main.go")
	_, gf := parseFile(gpath)
	b.WriteString(readGrammarCopy(gf).lean("generatorVars"))
	var tmpl string
	ast.Inspect(funcDecl(gf, "GenerateParsingTable"), func(n ast.Node) bool {
		if call, ok := n.(*ast.CallExpr); ok && exprStr(call.Fun) == "b.WriteString" && len(call.Args) == 1 {
			if bl, ok := call.Args[0].(*ast.BasicLit); ok && strings.Contains(bl.Value, "productions = ") {
				tmpl = strLit(bl)
			}
		}
		return true
	})
	if tmpl == "" {
		failf("generator: header template not found")
	}
	_, tf := parseSrc("generator-template", tmpl)
	b.WriteString(readGrammarCopy(tf).lean("generatorTemplate"))
	b.WriteString("end Emerge.Gen.Tables\n")
	return b.String()
}
