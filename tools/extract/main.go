// Command extract re-reads the declarative parts of /repo (tables, literals, call-site facts)
// with go/ast and writes them as Lean terms. It is deliberately strict: any statement shape it
// does not know makes it fail, so that a change in the shape of the source is noticed.
package main

import (
	"fmt"
	"go/ast"
	"go/parser"
	"go/token"
	"os"
	"path/filepath"
	"strconv"
	"strings"
)

type failure struct{ msg string }

func failf(format string, a ...any) { panic(failure{fmt.Sprintf(format, a...)}) }

func parseFile(path string) (*token.FileSet, *ast.File) {
	fset := token.NewFileSet()
	f, err := parser.ParseFile(fset, path, nil, parser.ParseComments)
	if err != nil {
		failf("parse %s: %v", path, err)
	}
	return fset, f
}

func parseSrc(name, src string) (*token.FileSet, *ast.File) {
	fset := token.NewFileSet()
	f, err := parser.ParseFile(fset, name, src, parser.ParseComments)
	if err != nil {
		failf("parse %s: %v", name, err)
	}
	return fset, f
}

func funcDecl(f *ast.File, name string) *ast.FuncDecl {
	for _, d := range f.Decls {
		if fd, ok := d.(*ast.FuncDecl); ok && fd.Name.Name == name {
			return fd
		}
	}
	failf("function %s not found", name)
	return nil
}

func leanStr(s string) string {
	var b strings.Builder
	b.WriteByte('"')
	for _, r := range s {
		switch {
		case r == '"':
			b.WriteString("\\\"")
		case r == '\\':
			b.WriteString("\\\\")
		case r == '\n':
			b.WriteString("\\n")
		case r == '\t':
			b.WriteString("\\t")
		case r == '\r':
			b.WriteString("\\r")
		case r < 0x20 || r == 0x7f:
			fmt.Fprintf(&b, "\\x%02x", r)
		default:
			b.WriteRune(r)
		}
	}
	b.WriteByte('"')
	return b.String()
}

func intLit(e ast.Expr) int {
	switch x := e.(type) {
	case *ast.BasicLit:
		if x.Kind == token.INT {
			n, err := strconv.ParseInt(x.Value, 0, 64)
			if err != nil {
				failf("int literal %s", x.Value)
			}
			return int(n)
		}
		if x.Kind == token.CHAR {
			r, _, _, err := strconv.UnquoteChar(x.Value[1:len(x.Value)-1], '\'')
			if err != nil {
				failf("char literal %s", x.Value)
			}
			return int(r)
		}
	case *ast.UnaryExpr:
		if x.Op == token.SUB {
			return -intLit(x.X)
		}
	case *ast.ParenExpr:
		return intLit(x.X)
	}
	failf("expected integer/char literal, got %T", e)
	return 0
}

func strLit(e ast.Expr) string {
	if bl, ok := e.(*ast.BasicLit); ok && bl.Kind == token.STRING {
		s, err := strconv.Unquote(bl.Value)
		if err != nil {
			failf("string literal %s", bl.Value)
		}
		return s
	}
	failf("expected string literal, got %T", e)
	return ""
}

func joinInts(xs []int) string {
	ss := make([]string, len(xs))
	for i, x := range xs {
		ss[i] = strconv.Itoa(x)
	}
	return strings.Join(ss, ", ")
}

func writeIfChanged(path, content string) {
	old, err := os.ReadFile(path)
	if err == nil && string(old) == content {
		return
	}
	if err := os.MkdirAll(filepath.Dir(path), 0o755); err != nil {
		failf("%v", err)
	}
	if err := os.WriteFile(path, []byte(content), 0o644); err != nil {
		failf("%v", err)
	}
}

type job struct {
	name string
	file string // output file (relative to outdir)
	run  func(repo string) string
}

func main() {
	if len(os.Args) < 3 {
		fmt.Fprintln(os.Stderr, "usage: extract <repo> <outdir> [job ...]")
		os.Exit(2)
	}
	repo, out := os.Args[1], os.Args[2]
	want := map[string]bool{}
	for _, j := range os.Args[3:] {
		want[j] = true
	}
	jobs := []job{
		{"lexer", "Lexer.lean", extractLexer},
		{"tables", "Tables.lean", extractTables},
	}
	jobs = append(jobs, moreJobs()...)
	status := 0
	for _, j := range jobs {
		if len(want) > 0 && !want[j.name] {
			continue
		}
		func() {
			defer func() {
				if r := recover(); r != nil {
					if f, ok := r.(failure); ok {
						fmt.Printf("EXTRACT-FAIL %s: %s\n", j.name, f.msg)
					} else {
						fmt.Printf("EXTRACT-FAIL %s: %v\n", j.name, r)
					}
					os.Remove(filepath.Join(out, j.file))
					status = 1
				}
			}()
			content := j.run(repo)
			writeIfChanged(filepath.Join(out, j.file), content)
			fmt.Printf("EXTRACT-OK %s -> %s\n", j.name, j.file)
		}()
	}
	os.Exit(status)
}
