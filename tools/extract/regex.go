package main

import (
	"fmt"
	"go/ast"
	"go/token"
	"path/filepath"
	"sort"
	"strings"
)

// The pattern grammar of internal/regex/parser/parser.go is an expression tree of combinator calls.
// It is re-read here and written as a Lean `Comb` term per rule; the Lean model interprets that term.
// Also: escapedChars and the RuneClasses table of rune.go.

func init() {
	extraJobs = append(extraJobs, job{"regex", "Regex.lean", extractRegex})
}

type rxCtx struct {
	escaped []int
	ranges  map[string][2]int // rules that are a plain ExpectRuneInRange
}

func runesOf(s string) string {
	var xs []int
	for _, r := range s {
		xs = append(xs, int(r))
	}
	return "[" + joinInts(xs) + "]"
}

// selector chain p.name -> name
func fieldOfP(e ast.Expr) (string, bool) {
	se, ok := e.(*ast.SelectorExpr)
	if !ok {
		return "", false
	}
	id, ok := se.X.(*ast.Ident)
	if !ok || id.Name != "p" {
		return "", false
	}
	return se.Sel.Name, true
}

func (c *rxCtx) runeArgs(args []ast.Expr, ell token.Pos) []int {
	if len(args) == 1 && ell != token.NoPos {
		id, ok := args[0].(*ast.Ident)
		if !ok || id.Name != "escapedChars" {
			failf("regex grammar: unknown spread argument")
		}
		return c.escaped
	}
	var out []int
	for _, a := range args {
		out = append(out, intLit(a))
	}
	return out
}

func (c *rxCtx) comb(e ast.Expr) string {
	switch x := e.(type) {
	case *ast.SelectorExpr:
		if n, ok := fieldOfP(x); ok {
			return "(.nt " + leanStr(n) + ")"
		}
	case *ast.CallExpr:
		// comb.Parser(p.x)
		if se, ok := x.Fun.(*ast.SelectorExpr); ok {
			if id, ok := se.X.(*ast.Ident); ok && id.Name == "comb" {
				switch se.Sel.Name {
				case "Parser":
					if len(x.Args) != 1 {
						failf("regex grammar: comb.Parser arity")
					}
					return c.comb(x.Args[0])
				case "ExpectRune":
					return fmt.Sprintf("(.rune %d)", intLit(x.Args[0]))
				case "ExpectRuneIn":
					return "(.runeIn [" + joinInts(c.runeArgs(x.Args, x.Ellipsis)) + "])"
				case "ExpectRuneInRange":
					return fmt.Sprintf("(.range %d %d)", intLit(x.Args[0]), intLit(x.Args[1]))
				case "ExpectString":
					return "(.str " + runesOf(strLit(x.Args[0])) + ")"
				}
				failf("regex grammar: unknown combinator comb.%s", se.Sel.Name)
			}
			// method call on a parser expression
			recv := se.X
			switch se.Sel.Name {
			case "ALT", "CONCAT":
				parts := []string{c.comb(recv)}
				for _, a := range x.Args {
					parts = append(parts, c.comb(a))
				}
				k := ".alt"
				if se.Sel.Name == "CONCAT" {
					k = ".cat"
				}
				return "(" + k + " [" + strings.Join(parts, ", ") + "])"
			case "OPT":
				return "(.opt " + c.comb(recv) + ")"
			case "REP1":
				return "(.rep1 " + c.comb(recv) + ")"
			case "Map":
				if len(x.Args) != 1 {
					failf("regex grammar: Map arity")
				}
				var name string
				switch f := x.Args[0].(type) {
				case *ast.Ident:
					name = f.Name
				case *ast.SelectorExpr: // p.m.ToX
					name = f.Sel.Name
				default:
					failf("regex grammar: Map argument %T", f)
				}
				return "(.map " + leanStr(name) + " " + c.comb(recv) + ")"
			case "Bind":
				call, ok := x.Args[0].(*ast.CallExpr)
				if !ok {
					failf("regex grammar: Bind argument")
				}
				fse, ok := call.Fun.(*ast.SelectorExpr)
				if !ok || fse.Sel.Name != "ExcludeRunes" {
					failf("regex grammar: Bind of something other than ExcludeRunes")
				}
				// the receiver must be a rule that is a plain rune range: the Bind is inlined
				rn, ok := fieldOfP(recv)
				if !ok {
					failf("regex grammar: Bind receiver is not p.<rule>")
				}
				rg, ok := c.ranges[rn]
				if !ok {
					failf("regex grammar: Bind receiver %s is not a rune-range rule", rn)
				}
				return fmt.Sprintf("(.rangeExcl %d %d [%s])", rg[0], rg[1], joinInts(c.runeArgs(call.Args, call.Ellipsis)))
			}
			failf("regex grammar: unknown parser method %s", se.Sel.Name)
		}
	}
	failf("regex grammar: unknown expression shape %T", e)
	return ""
}

func extractRegex(repo string) string {
	_, f := parseFile(filepath.Join(repo, "internal/regex/parser/parser.go"))
	c := &rxCtx{ranges: map[string][2]int{}}
	ec, ok := varValue(f, "escapedChars").(*ast.CompositeLit)
	if !ok {
		failf("escapedChars: not a composite literal")
	}
	for _, el := range ec.Elts {
		c.escaped = append(c.escaped, intLit(el))
	}
	type rule struct{ name, body string }
	var rules []rule
	// assignments p.<name> = <expr> in New, in order
	nw := funcDecl(f, "New")
	for _, st := range nw.Body.List {
		as, ok := st.(*ast.AssignStmt)
		if !ok {
			continue
		}
		if len(as.Lhs) != 1 || len(as.Rhs) != 1 {
			failf("regex grammar: unexpected assignment shape in New")
		}
		if id, ok := as.Lhs[0].(*ast.Ident); ok && id.Name == "p" {
			continue // p := &Parser{...}
		}
		n, ok := fieldOfP(as.Lhs[0])
		if !ok {
			failf("regex grammar: assignment to something other than p.<rule> in New")
		}
		if call, ok := as.Rhs[0].(*ast.CallExpr); ok {
			if se, ok := call.Fun.(*ast.SelectorExpr); ok && se.Sel.Name == "ExpectRuneInRange" {
				c.ranges[n] = [2]int{intLit(call.Args[0]), intLit(call.Args[1])}
			}
		}
		rules = append(rules, rule{n, c.comb(as.Rhs[0])})
	}
	// recursive rules: methods whose body is `return <expr>(in)`
	for _, d := range f.Decls {
		fd, ok := d.(*ast.FuncDecl)
		if !ok || fd.Recv == nil || fd.Name.Name == "Parse" {
			continue
		}
		if len(fd.Body.List) != 1 {
			failf("regex grammar: method %s has an unexpected body", fd.Name.Name)
		}
		rs, ok := fd.Body.List[0].(*ast.ReturnStmt)
		if !ok || len(rs.Results) != 1 {
			failf("regex grammar: method %s: expected a single return", fd.Name.Name)
		}
		call, ok := rs.Results[0].(*ast.CallExpr)
		if !ok || len(call.Args) != 1 {
			failf("regex grammar: method %s: expected <parser>(in)", fd.Name.Name)
		}
		rules = append(rules, rule{fd.Name.Name, c.comb(call.Fun)})
	}
	// Parse: in := newStringInput(regex); return p.regex(in)
	pf := funcDecl(f, "Parse")
	top := ""
	ast.Inspect(pf.Body, func(n ast.Node) bool {
		if rs, ok := n.(*ast.ReturnStmt); ok && len(rs.Results) == 1 {
			if call, ok := rs.Results[0].(*ast.CallExpr); ok {
				if n, ok := fieldOfP(call.Fun); ok {
					top = n
				}
			}
		}
		return true
	})
	if top == "" {
		failf("regex grammar: Parse does not return p.<rule>(in)")
	}

	var b strings.Builder
	b.WriteString("-- GENERATED by /verif/tools/extract from internal/regex/parser/parser.go and rune.go; do not edit\nimport Emerge.Regex.Comb\nnamespace Emerge.Gen.Regex\nopen Emerge.Regex\n\n")
	b.WriteString("def escapedChars : List Nat := [" + joinInts(c.escaped) + "]\n\n")
	b.WriteString("def top : String := " + leanStr(top) + "\n\n")
	b.WriteString("def rules : List (String × Comb) := [\n")
	for i, r := range rules {
		sep := ","
		if i == len(rules)-1 {
			sep = ""
		}
		b.WriteString("  (" + leanStr(r.name) + ", " + r.body + ")" + sep + "\n")
	}
	b.WriteString("]\n\n")

	// RuneClasses
	_, rf := parseFile(filepath.Join(repo, "internal/regex/parser/rune.go"))
	cl, ok := varValue(rf, "RuneClasses").(*ast.CompositeLit)
	if !ok {
		failf("RuneClasses: not a composite literal")
	}
	type cls struct {
		name   string
		ranges [][2]int
	}
	var classes []cls
	for _, el := range cl.Elts {
		kv, ok := el.(*ast.KeyValueExpr)
		if !ok {
			failf("RuneClasses: element shape")
		}
		k := cls{name: strLit(kv.Key)}
		vl, ok := kv.Value.(*ast.CompositeLit)
		if !ok {
			failf("RuneClasses[%s]: value shape", k.name)
		}
		for _, part := range vl.Elts {
			pl, ok := part.(*ast.CompositeLit)
			if !ok {
				failf("RuneClasses[%s]: part shape", k.name)
			}
			tn, ok := pl.Type.(*ast.Ident)
			if !ok {
				failf("RuneClasses[%s]: part type", k.name)
			}
			switch tn.Name {
			case "runeRange":
				if len(pl.Elts) != 2 {
					failf("RuneClasses[%s]: runeRange arity", k.name)
				}
				k.ranges = append(k.ranges, [2]int{intLit(pl.Elts[0]), intLit(pl.Elts[1])})
			case "runeList":
				for _, e := range pl.Elts {
					r := intLit(e)
					k.ranges = append(k.ranges, [2]int{r, r})
				}
			default:
				failf("RuneClasses[%s]: unknown part type %s", k.name, tn.Name)
			}
		}
		classes = append(classes, k)
	}
	sort.Slice(classes, func(i, j int) bool { return classes[i].name < classes[j].name })
	b.WriteString("/-- `RuneClasses`: each class as its list of inclusive ranges, in source order (a `runeList` entry is a one-rune range). -/\n")
	b.WriteString("def runeClasses : List (String × List (Nat × Nat)) := [\n")
	for i, k := range classes {
		var rs []string
		for _, r := range k.ranges {
			rs = append(rs, fmt.Sprintf("(%d, %d)", r[0], r[1]))
		}
		sep := ","
		if i == len(classes)-1 {
			sep = ""
		}
		b.WriteString("  (" + leanStr(k.name) + ", [" + strings.Join(rs, ", ") + "])" + sep + "\n")
	}
	b.WriteString("]\n\nend Emerge.Gen.Regex\n")
	return b.String()
}
