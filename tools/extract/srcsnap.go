package main

import (
	"crypto/sha256"
	"encoding/hex"
	"encoding/json"
	"fmt"
	"go/ast"
	"go/parser"
	"go/printer"
	"go/token"
	"os"
	"path/filepath"
	"sort"
	"strings"
)

// Statement snapshot: for every property, a digest of the canonically printed text of the functions (declarations,
// single clauses of the big action switches, templates) that the property's hand-written model transcribes.
// The Lean side compares the digest with the one recorded when the model was written (Ref/SrcSnap.lean); python
// compares the per-function hashes (build/srcsnap.json against ref/srcsnap_expected.json) to name what changed.
//
// Keys:   <file>#<Recv>.<Func>      a function or method (signature and body, comments dropped)
//         <file>#<Func>/case <v>    one clause of the production switch of a function listed in bigSwitch
//         <file>#<Func>/frame       that function without the clauses of its production switch
//         <file>#decl:<names>       a type, var or const declaration
//         <file>                    a template, white space normalised
// A selector is a key, or a key prefix ending in '*'.

func init() {
	extraJobs = append(extraJobs, job{"srcsnap", "SrcSnap.lean", extractSrcSnap})
}

const (
	fSpec    = "internal/ebnf/parser/spec/spec.go"
	fSymtab  = "internal/ebnf/parser/spec/symbol_table.go"
	fStrings = "internal/ebnf/parser/spec/strings.go"
	fSpecP   = "internal/ebnf/parser/spec/parser.go"
	fGolang  = "internal/generate/golang/golang.go"
	fCode    = "internal/generate/golang/code.go"
	fCommand = "internal/command/command.go"
	fMain    = "cmd/emerge/main.go"
	fParser  = "internal/ebnf/parser/parser.go"
	fTable   = "internal/ebnf/parser/parsing_table.go"
	fGenMain = "internal/ebnf/parser/generate/main.go"
	fLexer   = "internal/ebnf/lexer/lexer.go"
	fAstP    = "internal/ebnf/parser/ast/parser.go"
	fAst     = "internal/ebnf/parser/ast/ast.go"
	fReP     = "internal/regex/parser/parser.go"
	fReRune  = "internal/regex/parser/rune.go"
	fReIn    = "internal/regex/parser/input.go"
	fNfaP    = "internal/regex/parser/nfa/parser.go"
	fNfa     = "internal/regex/parser/nfa/nfa.go"
	fReAst   = "internal/regex/parser/ast/ast.go"
	fReAstP  = "internal/regex/parser/ast/parser.go"
	tDir     = "internal/generate/golang/templates/"
)

var snapFiles = []string{fSpec, fSymtab, fStrings, fSpecP, fGolang, fCode, fCommand, fMain, fParser, fTable, fGenMain, fLexer,
	fAstP, fAst, fReP, fReRune, fReIn, fNfaP, fNfa, fReAst, fReAstP}

var snapTemplates = []string{"lexer.go.tmpl", "input.go.tmpl", "stack.go.tmpl", "types.go.tmpl", "errors.go.tmpl", "parser.go.tmpl"}

// functions whose production switch is split into clauses
var bigSwitch = map[string]bool{fSpecP + "#Parse": true, fAstP + "#Parse": true}

func cases(file, fn string, vals ...int) []string {
	var out []string
	for _, v := range vals {
		out = append(out, fmt.Sprintf("%s#%s/case %d", file, fn, v))
	}
	return out
}

func rng(lo, hi int) []int {
	var out []int
	for i := lo; i <= hi; i++ {
		out = append(out, i)
	}
	return out
}

func cat(xs ...[]string) []string {
	var out []string
	for _, x := range xs {
		out = append(out, x...)
	}
	return out
}

// what each property's model transcribes
var snapSelect = map[string][]string{
	"C01": cat(cases(fSpecP, "Parse", rng(19, 34)...), []string{fSpecP + "#Parse/frame", fSymtab + "#SymbolTable.AddNonTerminal", fSymtab + "#SymbolTable.AddProduction",
		fSymtab + "#SymbolTable.GetOpt", fSymtab + "#SymbolTable.GetGroup", fSymtab + "#SymbolTable.GetStar", fSymtab + "#SymbolTable.GetPlus",
		fSymtab + "#SymbolTable.mapStringToNoneTerminal", fSymtab + "#SymbolTable.isNonTerminal", fSymtab + "#SymbolTable.AddStringTerminal", fSymtab + "#SymbolTable.AddTokenTerminal",
		fSymtab + "#NewSymbolTable", fSymtab + "#SymbolTable.Reset", fSymtab + "#SymbolTable.Productions", fSymtab + "#SymbolTable.NonTerminals", fStrings + "#*"}),
	"C02": {fSpec + "#Spec.DFA", fSpec + "#regexToDFA", fSpec + "#stringToDFA", fReP + "#*", fReRune + "#*", fReIn + "#*", fNfaP + "#*", fNfa + "#*"},
	"C03": {fSpec + "#Spec.DFA", fSpec + "#regexToDFA", fSpec + "#stringToDFA", fSymtab + "#SymbolTable.Definitions", fSymtab + "#SymbolTable.AddStringTokenDef",
		fSymtab + "#SymbolTable.AddRegexTokenDef", fSymtab + "#unescapeString", fSymtab + "#SymbolTable.AddStringTerminal", fSymtab + "#decl:TerminalDef*"},
	"C04": {fGenMain + "#*", fParser + "#Parser.Parse", fParser + "#Parser.nextToken", fParser + "#New", fTable + "#*"},
	"C05": {fLexer + "#*"},
	"C06": cat(cases(fSpecP, "Parse", 0, 12, 13, 14, 15, 16, 17, 18), []string{fSpecP + "#Parse/frame", fSpec + "#Spec.LALRParsingTable", fSpec + "#Spec.resolveConflicts",
		fSpec + "#Spec.dominantAction", fSpec + "#Spec.Productions", fSymtab + "#SymbolTable.Precedences", fSymtab + "#SymbolTable.AddPrecedence", fGolang + "#generator.generateParser"}),
	"C07": cat(cases(fSpecP, "Parse", 0, 9, 10, 11, 33, 34), []string{fSpecP + "#Parse/frame", fSymtab + "#SymbolTable.Verify", fSymtab + "#SymbolTable.ensureSingleDefs",
		fSymtab + "#SymbolTable.ensureDistinctDefs", fSymtab + "#SymbolTable.orderedTerminals", fSymtab + "#SymbolTable.ensureStartSymbol", fSymtab + "#SymbolTable.Definitions",
		fSymtab + "#SymbolTable.AddStringTokenDef", fSymtab + "#SymbolTable.AddRegexTokenDef", fSymtab + "#unescapeString", fSymtab + "#SymbolTable.AddStringTerminal",
		fSymtab + "#SymbolTable.AddTokenTerminal", fSymtab + "#SymbolTable.Terminals"}),
	"C08": {fGolang + "#generator.generateLexer", fGolang + "#groupDFAStates", fGolang + "#formatInts", fGolang + "#formatRunes", fGolang + "#generator.renderTemplate",
		fGolang + "#generator.prepare", fGolang + "#generator.generateCore", fGolang + "#decl:*", tDir + "*"},
	"C09": {fReP + "#*", fReIn + "#*", fNfaP + "#*", fReAst + "#Parse", fReAstP + "#*"},
	"C10": {fReAst + "#*", fReAstP + "#*"},
	"C11": {fAstP + "#*", fParser + "#Parser.ParseAndEvaluate"},
	"C12": cat(cases(fSpecP, "Parse", rng(12, 18)...), []string{fSpecP + "#Parse/frame", fSymtab + "#SymbolTable.Precedences", fSymtab + "#SymbolTable.AddPrecedence"}),
	"C13": {fLexer + "#New", fLexer + "#Lexer.NextToken", fLexer + "#Lexer.scanToken", fLexer + "#Lexer.evalToken", fLexer + "#Lexer.evalDFA", fParser + "#New", fParser + "#Parser.nextToken"},
	"C14": {fMain + "#*", fCommand + "#Command.Run", fCommand + "#New", fSpecP + "#Parse/frame", fAstP + "#Parse/frame", fNfaP + "#Parse", fReAst + "#Parse", fReIn + "#*"},
	"C15": {fSpec + "#Spec.DFA", fSymtab + "#SymbolTable.ensureSingleDefs", fSymtab + "#SymbolTable.ensureDistinctDefs", fSymtab + "#SymbolTable.orderedTerminals",
		fSymtab + "#SymbolTable.Definitions", fSpec + "#Spec.resolveConflicts", fSpec + "#Spec.dominantAction", fGolang + "#generator.generateLexer", fGolang + "#groupDFAStates",
		fCommand + "#Command.Run", fNfaP + "#Parse", fReAst + "#Parse"},
	"C16": {fMain + "#*", fCommand + "#Command.Run", fCommand + "#New", fGolang + "#Generate", fGolang + "#generator.prepare", fGolang + "#generator.generateCore",
		fGolang + "#generator.generateParser", fGolang + "#generator.renderTemplate", fCode + "#*"},
	"C17": {fStrings + "#hashStrings", fSymtab + "#NewSymbolTable", fSymtab + "#SymbolTable.Reset", fParser + "#New", fReRune + "#*", fSpecP + "#Parse/frame", fReAst + "#Parse", fNfaP + "#Parse"},
	"C18": {fParser + "#*"},
	"C19": {tDir + "lexer.go.tmpl", tDir + "input.go.tmpl", tDir + "types.go.tmpl", tDir + "errors.go.tmpl", fGolang + "#generator.generateLexer", fGolang + "#groupDFAStates",
		fGolang + "#formatInts", fGolang + "#formatRunes"},
	"C20": {fParser + "#New", fParser + "#Parser.nextToken", fParser + "#Parser.Parse", fLexer + "#New", fLexer + "#Lexer.NextToken", fLexer + "#Lexer.scanToken", fLexer + "#Lexer.evalToken", fLexer + "#Lexer.evalDFA"},
}

func norm(s string) string { return strings.Join(strings.Fields(s), " ") }

func hashOf(s string) string {
	h := sha256.Sum256([]byte(s))
	return hex.EncodeToString(h[:])
}

func printNode(fset *token.FileSet, n any) string {
	var b strings.Builder
	if err := printer.Fprint(&b, fset, n); err != nil {
		failf("print: %v", err)
	}
	return norm(b.String())
}

func recvName(fd *ast.FuncDecl) string {
	if fd.Recv == nil || len(fd.Recv.List) == 0 {
		return ""
	}
	t := fd.Recv.List[0].Type
	if s, ok := t.(*ast.StarExpr); ok {
		t = s.X
	}
	if ix, ok := t.(*ast.IndexExpr); ok {
		t = ix.X
	}
	if id, ok := t.(*ast.Ident); ok {
		return id.Name + "."
	}
	return "?."
}

// the switch with the most clauses inside a function
func biggestSwitch(fd *ast.FuncDecl) *ast.SwitchStmt {
	var best *ast.SwitchStmt
	ast.Inspect(fd.Body, func(n ast.Node) bool {
		if s, ok := n.(*ast.SwitchStmt); ok {
			if best == nil || len(s.Body.List) > len(best.Body.List) {
				best = s
			}
		}
		return true
	})
	return best
}

func snapEntries(repo string) map[string]string {
	entries := map[string]string{}
	for _, rel := range snapFiles {
		fset := token.NewFileSet()
		f, err := parser.ParseFile(fset, filepath.Join(repo, rel), nil, 0) // comments dropped
		if err != nil {
			failf("parse %s: %v", rel, err)
		}
		for _, d := range f.Decls {
			switch v := d.(type) {
			case *ast.FuncDecl:
				key := rel + "#" + recvName(v) + v.Name.Name
				if bigSwitch[key] && v.Body != nil {
					sw := biggestSwitch(v)
					if sw == nil || len(sw.Body.List) < 10 {
						failf("%s: no production switch", key)
					}
					for _, c := range sw.Body.List {
						cc := c.(*ast.CaseClause)
						label := "default"
						if len(cc.List) > 0 {
							var ls []string
							for _, e := range cc.List {
								ls = append(ls, printNode(fset, e))
							}
							label = "case " + strings.Join(ls, ",")
						}
						entries[key+"/"+label] = hashOf(printNode(fset, cc))
					}
					saved := sw.Body.List
					sw.Body.List = nil
					entries[key+"/frame"] = hashOf(printNode(fset, v))
					sw.Body.List = saved
				} else {
					entries[key] = hashOf(printNode(fset, v))
				}
			case *ast.GenDecl:
				if v.Tok == token.IMPORT {
					continue
				}
				var names []string
				for _, s := range v.Specs {
					switch sp := s.(type) {
					case *ast.TypeSpec:
						names = append(names, sp.Name.Name)
					case *ast.ValueSpec:
						for _, n := range sp.Names {
							names = append(names, n.Name)
						}
					}
				}
				entries[rel+"#decl:"+strings.Join(names, ",")] = hashOf(printNode(fset, v))
			}
		}
	}
	for _, t := range snapTemplates {
		data, err := os.ReadFile(filepath.Join(repo, tDir, t))
		if err != nil {
			failf("read template %s: %v", t, err)
		}
		entries[tDir+t] = hashOf(norm(string(data)))
	}
	return entries
}

func selected(entries map[string]string, sels []string) [][2]string {
	var out [][2]string
	seen := map[string]bool{}
	for _, s := range sels {
		n := 0
		for k, h := range entries {
			if k == s || (strings.HasSuffix(s, "*") && strings.HasPrefix(k, strings.TrimSuffix(s, "*"))) {
				n++
				if !seen[k] {
					seen[k] = true
					out = append(out, [2]string{k, h})
				}
			}
		}
		if n == 0 {
			// a selected function disappeared (renamed, removed): recorded as a change of its own
			out = append(out, [2]string{s, "missing"})
		}
	}
	sort.Slice(out, func(i, j int) bool { return out[i][0] < out[j][0] })
	return out
}

func extractSrcSnap(repo string) string {
	entries := snapEntries(repo)
	var ids []string
	for id := range snapSelect {
		ids = append(ids, id)
	}
	sort.Strings(ids)
	var b strings.Builder
	b.WriteString("-- GENERATED by /verif/tools/extract (srcsnap): digests of the statements each property's model transcribes; do not edit\n")
	b.WriteString("namespace Emerge.Gen.SrcSnap\n\n")
	detail := map[string][][2]string{}
	for _, id := range ids {
		sel := selected(entries, snapSelect[id])
		detail[id] = sel
		var t strings.Builder
		for _, e := range sel {
			t.WriteString(e[0] + "=" + e[1] + "\n")
		}
		fmt.Fprintf(&b, "def digest_%s : Nat := 0x%s\ndef count_%s : Nat := %d\n\n", id, hashOf(t.String())[:32], id, len(sel))
	}
	b.WriteString("end Emerge.Gen.SrcSnap\n")
	// side output for diagnostics (which function changed): next to the generated Lean file's directory root
	if dir := os.Getenv("VERIF_SRCSNAP_JSON"); dir != "" {
		data, _ := json.MarshalIndent(detail, "", " ")
		_ = os.WriteFile(dir, data, 0o644)
	}
	return b.String()
}
