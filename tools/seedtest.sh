#!/bin/sh
# tools/seedtest.sh <seed-dir> <check-id> [tier]  — applies seeded/<seed-dir>/patch.diff to /repo, runs the check,
# restores /repo. Prints the check's verdict lines. Never commits anything to /repo.
set -u
cd "$(dirname "$0")/.."
S="seeded/$1"; ID="$2"; TIER="${3:-quick}"
[ -f "$S/patch.diff" ] || { echo "no $S/patch.diff"; exit 2; }
if [ -n "$(git -C /repo status --porcelain)" ]; then echo "/repo is not clean"; exit 2; fi
git -C /repo apply "$PWD/$S/patch.diff" || { echo "patch does not apply"; exit 2; }
./check "$ID" --tier "$TIER" > "/tmp/seedtest-$1-$ID.log" 2>&1
rc=$?
git -C /repo checkout -- . && git -C /repo clean -fdq
grep -E "VIOLATION|KNOWN-FINDING|TIE BROKEN|: OK|: FAILED" "/tmp/seedtest-$1-$ID.log" | cut -c1-400
echo "exit=$rc"
