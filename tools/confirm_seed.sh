#!/bin/sh
# tools/confirm_seed.sh <seed-dir> <package-dir-for-demo> <tags|-> : confirms in a scratch worktree that with the patch
# the existing suite passes and the demonstration fails, and that without it the demonstration passes.
set -u
cd "$(dirname "$0")/.."
S="$PWD/seeded/$1"; PKG="$2"; TAGS="$3"
W=$(mktemp -d /tmp/cw-XXXXXX); rmdir "$W"
export GOFLAGS=-mod=mod GOPROXY=off
git -C /repo worktree add -q --detach "$W" HEAD || exit 2
cd "$W"
git apply "$S/patch.diff" || { echo "PATCH-FAIL"; exit 2; }
if go build ./... >/dev/null 2>&1 && go test -vet=off -count=1 ./... >"$W.suite.log" 2>&1; then echo "suite-with-patch: PASS"; else echo "suite-with-patch: FAIL"; tail -5 "$W.suite.log"; fi
mkdir -p "$PKG"; for f in "$S"/*_test.go; do cp "$f" "$PKG/zz_$(basename "$f")"; done
T=""; [ "$TAGS" != "-" ] && T="-tags $TAGS"
if go test -vet=off -count=1 $T "./$PKG/" >"$W.demo1.log" 2>&1; then echo "demo-with-patch: PASS (unexpected)"; else echo "demo-with-patch: FAIL (expected)"; fi
git apply -R "$S/patch.diff"
if go test -vet=off -count=1 $T "./$PKG/" >"$W.demo2.log" 2>&1; then echo "demo-without-patch: PASS (expected)"; else echo "demo-without-patch: FAIL (unexpected)"; tail -5 "$W.demo2.log"; fi
cd /; git -C /repo worktree remove --force "$W"; rm -f "$W".*.log
