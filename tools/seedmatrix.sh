#!/bin/sh
# tools/seedmatrix.sh [parallelism] — runs every seed of seeded/ (except those marked obsolete) through the quick tier of the
# check of the property it breaks (tools/seedtest2.sh: scratch worktree, scratch copy of /verif) and prints one line per seed:
#   <seed> <ID> violations=<n> nofailing=<0|1> exit=<rc>
# A seed is caught with a failing input when violations > nofailing.
cd "$(dirname "$0")/.."
P="${1:-4}"
ls seeded | while read n; do [ -f "seeded/$n/patch.diff" ] && echo "$n"; done | xargs -P "$P" -I{} sh -c '
  n="{}"
  id=$(python3 -c "import json;m=json.load(open(\"seeded/$n/meta.json\"));print(\"\" if m.get(\"obsolete\") else m[\"breaks_property\"])" 2>/dev/null | tail -1)
  if [ -z "$id" ]; then echo "$n skipped (obsolete or no meta.json)"; exit 0; fi
  r=$(tools/seedtest2.sh "$n" "$id" 2>&1 | grep -E "^VIOLATION|: OK|exit=|patch does not apply")
  nv=$(echo "$r" | grep -c "^VIOLATION")
  nf=$(echo "$r" | grep -c "no-failing-input-found")
  ex=$(echo "$r" | grep "exit=" | tail -1)
  na=$(echo "$r" | grep -c "patch does not apply")
  echo "$n $id violations=$nv nofailing=$nf $ex $([ "$na" -gt 0 ] && echo PATCH-DOES-NOT-APPLY)"
'
