#!/bin/sh
# tools/seedtest2.sh <seed-dir> <check-id> [tier] — like seedtest.sh, but touches neither /repo nor /verif/build:
# the patch is applied in a scratch worktree of /repo's HEAD and the check runs from a scratch copy of /verif with
# VERIF_REPO pointing at that worktree. Safe to run beside other checks. Prints the verdict lines.
set -u
cd "$(dirname "$0")/.."
S="$PWD/seeded/$1"; ID="$2"; TIER="${3:-quick}"
[ -f "$S/patch.diff" ] || { echo "no $S/patch.diff"; exit 2; }
W=$(mktemp -d /tmp/sw-XXXXXX); rmdir "$W"
C=$(mktemp -d /tmp/sv-XXXXXX)
git -C /repo worktree add -q --detach "$W" HEAD || exit 2
git -C "$W" apply "$S/patch.diff" || { echo "patch does not apply"; git -C /repo worktree remove --force "$W"; rm -rf "$C"; exit 2; }
rsync -a --exclude .git --exclude 'build/.*.lock' "$PWD/" "$C/"
( cd "$C" && VERIF_REPO="$W" ./check "$ID" --tier "$TIER" ) > "/tmp/seedtest-$1-$ID.log" 2>&1
rc=$?
grep -E "VIOLATION|KNOWN-FINDING|TIE BROKEN|: OK|: FAILED" "/tmp/seedtest-$1-$ID.log" | cut -c1-400
for r in $(grep -oE "replay=[^ ]+" "/tmp/seedtest-$1-$ID.log" | cut -d= -f2 | sort -u | head -3); do
  f="$C/${r#/verif/}"; [ -f "$r" ] && [ ! -f "$f" ] && f="$r"; [ -f "$f" ] || f="$C/$r"
  [ -f "$f" ] && { echo "--- $r"; head -c 1500 "$f"; echo; }
done
echo "exit=$rc"
git -C /repo worktree remove --force "$W"; rm -rf "$C"
