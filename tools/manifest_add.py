#!/usr/bin/env python3
"""tools/manifest_add.py <ID> <category> <technique> <text> <note> : adds/replaces a check entry, removes it from not_applicable, validates."""
import json, sys
pid, cat, tech, text, note = sys.argv[1:6]
p = "/verif/MANIFEST.json"
m = json.load(open(p))
entry = {"property_id": pid, "quick_cmd": "./check %s --tier quick" % pid, "thorough_cmd": "./check %s --tier thorough" % pid,
         "evidence_file": "/verif/evidence/%s.json" % pid, "replay_cmd_template": "./check %s --replay {path}" % pid, "engine": "lean-model",
         "level_claimed": {"category": cat, "text": text, "design_ref": "5/" + pid}, "level_note": note, "technique": tech}
m["checks"] = [c for c in m["checks"] if c["property_id"] != pid] + [entry]
m["not_applicable"] = [n for n in m.get("not_applicable", []) if n["property_id"] != pid]
for e in m.get("engines", []):
    if pid not in e["serves_properties"]:
        e["serves_properties"].append(pid)
json.dump(m, open(p, "w"), indent=1)
try:
    import jsonschema
except ImportError:
    sys.exit(print("ok (not validated: run under python3-vt)", pid) or 0)
jsonschema.validate(m, json.load(open("/root/.vp/MANIFEST.schema.json")))
print("ok", pid, len(m["checks"]), "checks")
