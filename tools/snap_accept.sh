#!/bin/sh
# tools/snap_accept.sh — records the statements of /repo's current tree as the text the models were written against:
# rewrites lean/Emerge/Ref/SrcSnap.lean and ref/srcsnap_expected.json. Run by hand after a change to /repo has been
# reviewed and the models follow it (e.g. after a fix: commit); never run by a check.
set -e
cd "$(dirname "$0")/.."
export GOFLAGS=-mod=mod GOPROXY=off GOTOOLCHAIN=local
T=$(mktemp -d /tmp/snap-XXXXXX)
( cd tools/extract && go build -o "$T/extract" . )
mkdir -p ref
VERIF_SRCSNAP_JSON="$PWD/ref/srcsnap_expected.json" "$T/extract" /repo "$T" srcsnap >/dev/null
sed -e 's/^-- GENERATED.*$/-- Recorded by tools\/snap_accept.sh from \/repo at '"$(git -C /repo rev-parse --short HEAD)"': the digests of the statements the models were written against/' \
    -e 's/Emerge.Gen.SrcSnap/Emerge.Ref.SrcSnap/g' "$T/SrcSnap.lean" > lean/Emerge/Ref/SrcSnap.lean
rm -rf "$T"
echo "recorded: lean/Emerge/Ref/SrcSnap.lean, ref/srcsnap_expected.json"
