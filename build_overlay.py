#!/usr/bin/env python3
"""Writes build/overlay.json: harness sources -> /repo/internal/zzverif/harness, hook files -> their packages."""
import json, os, sys
V = os.path.dirname(os.path.abspath(__file__))
REPO = os.environ.get("VERIF_REPO", "/repo")
HOOKS = {
    "lexer_hooks.go": "internal/ebnf/lexer/zz_verif_hooks.go",
    "parser_hooks.go": "internal/ebnf/parser/zz_verif_hooks.go",
    "spec_hooks.go": "internal/ebnf/parser/spec/zz_verif_hooks.go",
    "regexparser_hooks.go": "internal/regex/parser/zz_verif_hooks.go",
    "regexast_hooks.go": "internal/regex/parser/ast/zz_verif_hooks.go",
    "golang_hooks.go": "internal/generate/golang/zz_verif_hooks.go",
}
def main():
    rep = {}
    for f in sorted(os.listdir(os.path.join(V, "harness"))):
        if f.endswith(".go"):
            rep[os.path.join(REPO, "internal/zzverif/harness", f)] = os.path.join(V, "harness", f)
    for h, dst in HOOKS.items():
        p = os.path.join(V, "hooks", h)
        if os.path.exists(p):
            rep[os.path.join(REPO, dst)] = p
    os.makedirs(os.path.join(V, "build"), exist_ok=True)
    out = os.path.join(V, "build", "overlay.json" if REPO == "/repo" else "overlay-alt.json")
    json.dump({"Replace": rep}, open(out, "w"), indent=1)
    print(out)
if __name__ == "__main__":
    main()
