//go:build verif

package main

import (
	"fmt"
	"strings"

	"github.com/gardenbed/emerge/internal/ebnf/lexer"
)

func init() {
	commands["scan"] = cmdScan
	commands["advance"] = cmdAdvance
}

// scan <hex text>: token stream of the EBNF lexer.
// out: kind:lexeme:off:line:col ... | END <error text>
func cmdScan(f []string) string {
	src := unhx(f[0])
	L, err := lexer.New("f", strings.NewReader(src))
	if err != nil {
		return "NEWERR " + hx(err.Error())
	}
	var b strings.Builder
	for n := 0; ; n++ {
		tok, err := L.NextToken()
		if err != nil {
			fmt.Fprintf(&b, "END %s", hx(err.Error()))
			break
		}
		fmt.Fprintf(&b, "%s:%s:%d:%d:%d ", hx(string(tok.Terminal)), hx(tok.Lexeme), tok.Pos.Offset, tok.Pos.Line, tok.Pos.Column)
		if n > 1000000 {
			b.WriteString("RUNAWAY")
			break
		}
	}
	return b.String()
}

// advance <state> <rune>: the raw transition function (hook).
func cmdAdvance(f []string) string {
	var s, r int
	fmt.Sscan(f[0], &s)
	fmt.Sscan(f[1], &r)
	return fmt.Sprint(lexer.VerifAdvanceDFA(s, rune(r)))
}

func init() { commands["path"] = cmdPath }

// path <state>: a shortest ASCII text that drives the scanner automaton from state 0 to <state> (BFS over the real transition function).
func cmdPath(f []string) string {
	var target int
	fmt.Sscan(f[0], &target)
	type node struct {
		state int
		text  string
	}
	seen := map[int]bool{0: true}
	queue := []node{{0, ""}}
	for len(queue) > 0 {
		n := queue[0]
		queue = queue[1:]
		if n.state == target {
			return hx(n.text)
		}
		for r := rune(1); r < 128; r++ {
			nx := lexer.VerifAdvanceDFA(n.state, r)
			if nx >= 0 && !seen[nx] {
				seen[nx] = true
				queue = append(queue, node{nx, n.text + string(r)})
			}
		}
	}
	return "NONE"
}
