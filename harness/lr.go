//go:build verif

package main

import (
	"errors"
	"fmt"
	"io"
	"strconv"
	"strings"

	"github.com/moorara/algo/lexer"
	pparser "github.com/moorara/algo/parser"
	"github.com/moorara/algo/parser/lr"

	"github.com/gardenbed/emerge/internal/ebnf/parser"
)

func init() {
	commands["lr"] = cmdLr
	commands["parse"] = cmdParse
}

type stubLexer struct {
	toks []lexer.Token
	i    int
}

func (s *stubLexer) NextToken() (lexer.Token, error) {
	if s.i >= len(s.toks) {
		return lexer.Token{}, io.EOF
	}
	t := s.toks[s.i]
	s.i++
	return t, nil
}

func parseInts(s string) []int {
	if s == "-" {
		return nil
	}
	var out []int
	for _, f := range strings.Split(s, ",") {
		n, err := strconv.Atoi(f)
		if err == nil {
			out = append(out, n)
		}
	}
	return out
}

// The error a failing callback returns. Its text is always "cb"; its identity varies with the call, because the driver
// must return whatever error a callback gives it: a plain error, one that wraps io.EOF (the lexer's end-of-input signal),
// one that wraps io.ErrUnexpectedEOF, and one that claims to be every error (errors.Is is true for any target).
type wrapErr struct{ inner error }

func (e *wrapErr) Error() string { return "cb" }
func (e *wrapErr) Unwrap() error { return e.inner }

type anyErr struct{}

func (anyErr) Error() string        { return "cb" }
func (anyErr) Is(target error) bool { return true }

func cbError(k int) error {
	switch k % 4 {
	case 1:
		return &wrapErr{io.EOF}
	case 2:
		return anyErr{}
	case 3:
		return &wrapErr{io.ErrUnexpectedEOF}
	}
	return errors.New("cb")
}

func runParse(p *parser.Parser, failAt int) string {
	var b strings.Builder
	calls, ntok := 0, 0
	err := p.Parse(
		func(t *lexer.Token) error {
			fmt.Fprintf(&b, "T%d ", ntok)
			ntok++
			calls++
			if calls-1 == failAt {
				return cbError(failAt + ntok)
			}
			return nil
		},
		func(i int) error {
			fmt.Fprintf(&b, "P%d ", i)
			calls++
			if calls-1 == failAt {
				return cbError(failAt + ntok)
			}
			return nil
		},
	)
	if err != nil {
		return b.String() + "| ERR " + hx(err.Error())
	}
	return b.String() + "| ACCEPT"
}

// lr <failAt|-1> <t0,t1,...|->: the LR driver over a stub lexer delivering the given terminal kinds.
func cmdLr(f []string) string {
	failAt, _ := strconv.Atoi(f[0])
	terms := parser.VerifTerminals()
	var toks []lexer.Token
	for i, k := range parseInts(f[1]) {
		toks = append(toks, lexer.Token{
			Terminal: terms[k],
			Lexeme:   "L" + strconv.Itoa(i),
			Pos:      lexer.Position{Filename: "f", Offset: i, Line: 1, Column: i + 1},
		})
	}
	return runParse(&parser.Parser{L: &stubLexer{toks: toks}}, failAt)
}

// parse <failAt|-1> <hex text>: the real lexer and the LR driver.
func cmdParse(f []string) string {
	failAt, _ := strconv.Atoi(f[0])
	p, err := parser.New("f", strings.NewReader(unhx(f[1])))
	if err != nil {
		return "NEWERR " + hx(err.Error())
	}
	return runParse(p, failAt)
}

func init() {
	commands["action"] = cmdAction
	commands["goto"] = cmdGoto
}

// action <state> <terminal index | len(terminals) for the end marker>: the exported ACTION function.
func cmdAction(f []string) string {
	s, _ := strconv.Atoi(f[0])
	a, _ := strconv.Atoi(f[1])
	terms := parser.VerifTerminals()
	t := grammarEndmarker()
	if a < len(terms) {
		t = terms[a]
	}
	typ, param, err := parser.ACTION(s, t)
	if err != nil {
		return "E"
	}
	name := map[lr.ActionType]string{lr.SHIFT: "SHIFT", lr.REDUCE: "REDUCE", lr.ACCEPT: "ACCEPT", lr.ERROR: "ERROR"}[typ]
	return fmt.Sprintf("%s %d", name, param)
}

// goto <state> <non-terminal name hex>
func cmdGoto(f []string) string {
	s, _ := strconv.Atoi(f[0])
	return strconv.Itoa(parser.GOTO(s, grammarNonTerminal(unhx(f[1]))))
}

func init() {
	commands["lreval"] = cmdLrEval
	commands["lrast"] = cmdLrAst
}

func stubParser(kinds []int) *parser.Parser {
	terms := parser.VerifTerminals()
	var toks []lexer.Token
	for i, k := range kinds {
		toks = append(toks, lexer.Token{
			Terminal: terms[k],
			Lexeme:   "L" + strconv.Itoa(i),
			Pos:      lexer.Position{Filename: "f", Offset: i, Line: 1, Column: i + 1},
		})
	}
	return &parser.Parser{L: &stubLexer{toks: toks}}
}

func lrValStr(v *lr.Value) string {
	if v == nil {
		return "nil"
	}
	pos := "-"
	if v.Pos != nil {
		pos = strconv.Itoa(v.Pos.Offset)
	}
	return fmt.Sprint(v.Val) + "@" + pos
}

// lreval <failAt|-1> <t0,t1,...|->: ParseAndEvaluate; the evaluation function builds an S-expression
// of what it receives and fails at its failAt-th invocation.
func cmdLrEval(f []string) string {
	failAt, _ := strconv.Atoi(f[0])
	p := stubParser(parseInts(f[1]))
	calls := 0
	v, err := p.ParseAndEvaluate(func(i int, rhs []*lr.Value) (any, error) {
		calls++
		if calls-1 == failAt {
			return nil, cbError(failAt)
		}
		var b strings.Builder
		fmt.Fprintf(&b, "(%d", i)
		for _, r := range rhs {
			b.WriteString(" " + lrValStr(r))
		}
		b.WriteString(")")
		return b.String(), nil
	})
	if err != nil {
		if v != nil {
			return "ERR+VALUE " + hx(err.Error())
		}
		return "ERR " + hx(err.Error())
	}
	if v == nil {
		return "NILNIL"
	}
	return "OK " + hx(lrValStr(v))
}

func astNodeStr(n pparser.Node, idx map[int]int) string {
	switch v := n.(type) {
	case *pparser.LeafNode:
		return v.Lexeme
	case *pparser.InternalNode:
		var b strings.Builder
		pi := -1
		for i, p := range parser.VerifProductions() {
			if p.Equal(v.Production) {
				pi = i
			}
		}
		fmt.Fprintf(&b, "(%d", pi)
		for _, c := range v.Children {
			b.WriteString(" " + astNodeStr(c, idx))
		}
		b.WriteString(")")
		return b.String()
	}
	return "?"
}

// lrast <t0,t1,...|->: ParseAndBuildAST
func cmdLrAst(f []string) string {
	p := stubParser(parseInts(f[0]))
	n, err := p.ParseAndBuildAST()
	if err != nil {
		if n != nil {
			return "ERR+VALUE " + hx(err.Error())
		}
		return "ERR " + hx(err.Error())
	}
	if n == nil {
		return "NILNIL"
	}
	return "OK " + hx(astNodeStr(n, nil))
}
