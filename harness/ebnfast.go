//go:build verif

package main

import (
	"fmt"
	"strings"

	"github.com/moorara/algo/grammar"
	"github.com/moorara/algo/lexer"
	pparser "github.com/moorara/algo/parser"
	"github.com/moorara/algo/parser/lr"

	"github.com/gardenbed/emerge/internal/ebnf/parser"
	ebnfast "github.com/gardenbed/emerge/internal/ebnf/parser/ast"
)

func init() {
	commands["ebnftyped"] = cmdEbnfTyped
	commands["ebnfround"] = cmdEbnfRound
	commands["ebnftree"] = cmdEbnfTree
}

// typed tree as an S-expression without positions; strings are hex
func typedStr(n ebnfast.Node) string {
	switch v := n.(type) {
	case *ebnfast.Grammar:
		var ds []string
		for _, d := range v.Decls {
			ds = append(ds, typedStr(d))
		}
		return "(grammar " + hx(v.Name) + " " + strings.Join(ds, " ") + ")"
	case *ebnfast.StringTokenDecl:
		return "(strtok " + hx(v.Name) + " " + hx(v.Value) + ")"
	case *ebnfast.RegexTokenDecl:
		return "(retok " + hx(v.Name) + " " + hx(v.Regex) + ")"
	case *ebnfast.PrecedenceDecl:
		var hs []string
		for _, h := range v.Handles {
			hs = append(hs, typedStr(h))
		}
		return fmt.Sprintf("(prec %d %s)", v.Associativity, strings.Join(hs, " "))
	case *ebnfast.TerminalHandle:
		return "(th " + hx(v.Terminal) + ")"
	case *ebnfast.ProductionHandle:
		return "(ph " + hx(v.LHS) + " " + typedStr(v.RHS) + ")"
	case *ebnfast.RuleDecl:
		return "(rule " + hx(v.LHS) + " " + typedStr(v.RHS) + ")"
	case *ebnfast.ConcatRHS:
		var os []string
		for _, o := range v.Ops {
			os = append(os, typedStr(o))
		}
		return "(concat " + strings.Join(os, " ") + ")"
	case *ebnfast.AltRHS:
		var os []string
		for _, o := range v.Ops {
			os = append(os, typedStr(o))
		}
		return "(alt " + strings.Join(os, " ") + ")"
	case *ebnfast.OptRHS:
		return "(opt " + typedStr(v.Op) + ")"
	case *ebnfast.StarRHS:
		return "(star " + typedStr(v.Op) + ")"
	case *ebnfast.PlusRHS:
		return "(plus " + typedStr(v.Op) + ")"
	case *ebnfast.NonTerminalRHS:
		return "(nt " + hx(v.NonTerminal) + ")"
	case *ebnfast.TerminalRHS:
		return "(t " + hx(v.Terminal) + ")"
	case *ebnfast.EmptyRHS:
		return "(eps)"
	case nil:
		return "(nil)"
	}
	return fmt.Sprintf("(unknown %T)", n)
}

// ebnftyped <hex text>: ebnf ast.Parse, the typed tree
func cmdEbnfTyped(f []string) string {
	g, err := ebnfast.Parse("f", strings.NewReader(unhx(f[0])))
	if err != nil {
		return "ERR " + errLines(err)
	}
	if g == nil {
		return "NILNIL"
	}
	return "OK " + typedStr(g)
}

// printing a typed tree back to EBNF (a terminal's name is either a token name or a quoted literal)
func printRHS(n ebnfast.RHS, ctx int) string { // ctx: 0 top / inside brackets, 1 operand of concat, 2 operand of alt
	switch v := n.(type) {
	case *ebnfast.ConcatRHS:
		var os []string
		for _, o := range v.Ops {
			os = append(os, printRHS(o, 1))
		}
		s := strings.Join(os, " ")
		if ctx == 1 {
			return "( " + s + " )"
		}
		return s
	case *ebnfast.AltRHS:
		var os []string
		for i, o := range v.Ops {
			if _, empty := o.(*ebnfast.EmptyRHS); empty && i == len(v.Ops)-1 {
				os = append(os, "")
			} else {
				os = append(os, printRHS(o, 2))
			}
		}
		s := strings.TrimRight(strings.Join(os, " | "), " ")
		if ctx != 0 {
			return "( " + s + " )"
		}
		return s
	case *ebnfast.OptRHS:
		return "[ " + printRHS(v.Op, 0) + " ]"
	case *ebnfast.StarRHS:
		return "{ " + printRHS(v.Op, 0) + " }"
	case *ebnfast.PlusRHS:
		return "{{ " + printRHS(v.Op, 0) + " }}"
	case *ebnfast.NonTerminalRHS:
		return v.NonTerminal
	case *ebnfast.TerminalRHS:
		return printTerm(v.Terminal)
	case *ebnfast.EmptyRHS:
		return ""
	}
	return "?"
}

// a terminal named by a quoted literal is written as the literal: the name is %q of the text between the quotes
func printTerm(t string) string {
	if strings.HasPrefix(t, "\"") {
		var raw string
		if _, err := fmt.Sscanf(t, "%q", &raw); err == nil {
			return "\"" + raw + "\""
		}
	}
	return t
}

func printGrammar(g *ebnfast.Grammar) string {
	var b strings.Builder
	b.WriteString("grammar " + g.Name + ";\n")
	for _, d := range g.Decls {
		switch v := d.(type) {
		case *ebnfast.StringTokenDecl:
			fmt.Fprintf(&b, "%s = \"%s\";\n", v.Name, v.Value)
		case *ebnfast.RegexTokenDecl:
			// a pattern that is one of the predefined ones is written by its name (some contain `/`, which a pattern literal cannot)
			written := false
			for name, re := range parser.Predefs {
				if re == v.Regex {
					fmt.Fprintf(&b, "%s = %s;\n", v.Name, name)
					written = true
					break
				}
			}
			if !written {
				fmt.Fprintf(&b, "%s = /%s/;\n", v.Name, v.Regex)
			}
		case *ebnfast.PrecedenceDecl:
			kw := map[lr.Associativity]string{lr.NONE: "@none", lr.LEFT: "@left", lr.RIGHT: "@right"}[v.Associativity]
			b.WriteString(kw)
			for _, h := range v.Handles {
				switch hv := h.(type) {
				case *ebnfast.TerminalHandle:
					b.WriteString(" " + printTerm(hv.Terminal))
				case *ebnfast.ProductionHandle:
					b.WriteString(" <" + hv.LHS + " = " + printRHS(hv.RHS, 0) + ">")
				}
			}
			b.WriteString(";\n")
		case *ebnfast.RuleDecl:
			fmt.Fprintf(&b, "%s = %s;\n", v.LHS, printRHS(v.RHS, 0))
		}
	}
	return b.String()
}

// ebnfround <hex text>: parse, print the typed tree back to EBNF, parse again; the two trees must be equal up to positions
func cmdEbnfRound(f []string) string {
	g1, err := ebnfast.Parse("f", strings.NewReader(unhx(f[0])))
	if err != nil || g1 == nil {
		return "ERR1"
	}
	text := printGrammar(g1)
	g2, err := ebnfast.Parse("f", strings.NewReader(text))
	if err != nil || g2 == nil {
		return "ERR2 " + hx(text)
	}
	if typedStr(g1) == typedStr(g2) {
		return "SAME " + hx(text)
	}
	return "DIFF " + hx(text) + " " + typedStr(g2)
}

// ebnftree <hex text>: ParseAndBuildAST with the real lexer: the leaves (terminal, lexeme, offset/line/column) and
// whether every interior node applies one production (children symbols = production body)
func cmdEbnfTree(f []string) string {
	p, err := parser.New("f", strings.NewReader(unhx(f[0])))
	if err != nil {
		return "NEWERR"
	}
	root, err := p.ParseAndBuildAST()
	if err != nil {
		return "ERR " + errLines(err)
	}
	if root == nil {
		return "NILNIL"
	}
	var leaves []string
	ok := true
	var walk func(n pparser.Node) grammar.Symbol
	walk = func(n pparser.Node) grammar.Symbol {
		switch v := n.(type) {
		case *pparser.LeafNode:
			leaves = append(leaves, fmt.Sprintf("%s:%s:%d/%d/%d", hx(string(v.Terminal)), hx(v.Lexeme), v.Position.Offset, v.Position.Line, v.Position.Column))
			return v.Terminal
		case *pparser.InternalNode:
			if len(v.Children) != len(v.Production.Body) || !v.Production.Head.Equal(v.NonTerminal) {
				ok = false
			}
			for i, c := range v.Children {
				s := walk(c)
				if i < len(v.Production.Body) && !v.Production.Body[i].Equal(s) {
					ok = false
				}
			}
			return v.NonTerminal
		}
		ok = false
		return grammar.NonTerminal("?")
	}
	walk(root)
	_ = lexer.Token{}
	return fmt.Sprintf("OK rules=%v leaves=%s", ok, strings.Join(leaves, ","))
}
