//go:build verif

package main

import (
	"fmt"
	"sort"
	"strings"

	auto "github.com/moorara/algo/automata"

	"github.com/gardenbed/emerge/internal/ebnf/parser/spec"
	rast "github.com/gardenbed/emerge/internal/regex/parser/ast"
	"github.com/gardenbed/emerge/internal/regex/parser/nfa"
)

func init() {
	commands["renfa"] = cmdReNFA
	commands["reast"] = cmdReAST
	commands["renfaonly"] = cmdReNFAOnly
	commands["reastonly"] = cmdReASTOnly
}

// dfaStr prints a DFA canonically: start, sorted finals, transitions grouped by (from,to) with sorted symbols.
// Symbols are printed as unsigned 32-bit numbers (a negative rune from an 8-digit escape keeps its bit pattern).
func dfaStr(d *auto.DFA) string {
	var finals []int
	for f := range d.Final.All() {
		finals = append(finals, int(f))
	}
	sort.Ints(finals)
	type key struct{ s, t int }
	groups := map[key][]int64{}
	for tr := range d.Transitions() {
		k := key{int(tr.State), int(tr.Next)}
		groups[k] = append(groups[k], int64(uint32(tr.Symbol)))
	}
	keys := make([]key, 0, len(groups))
	for k := range groups {
		keys = append(keys, k)
	}
	sort.Slice(keys, func(i, j int) bool {
		if keys[i].s != keys[j].s {
			return keys[i].s < keys[j].s
		}
		return keys[i].t < keys[j].t
	})
	var b strings.Builder
	fmt.Fprintf(&b, "start=%d finals=", int(d.Start))
	for i, f := range finals {
		if i > 0 {
			b.WriteByte(',')
		}
		fmt.Fprintf(&b, "%d", f)
	}
	b.WriteString(" trans=")
	for i, k := range keys {
		if i > 0 {
			b.WriteByte(';')
		}
		syms := groups[k]
		sort.Slice(syms, func(i, j int) bool { return syms[i] < syms[j] })
		fmt.Fprintf(&b, "%d>%d:", k.s, k.t)
		// ranges lo-hi
		for j := 0; j < len(syms); {
			e := j
			for e+1 < len(syms) && syms[e+1] == syms[e]+1 {
				e++
			}
			if j > 0 {
				b.WriteByte(',')
			}
			if e > j {
				fmt.Fprintf(&b, "%d-%d", syms[j], syms[e])
			} else {
				fmt.Fprintf(&b, "%d", syms[j])
			}
			j = e + 1
		}
	}
	return b.String()
}

// renfa <hex pattern>: nfa.Parse, then the pipeline of spec.regexToDFA
func cmdReNFA(f []string) string {
	d, err := spec.VerifRegexToDFA(unhx(f[0]))
	if err != nil {
		return "ERR " + hx(err.Error())
	}
	if d == nil {
		return "NILNIL"
	}
	return "OK " + dfaStr(d)
}

// renfaonly <hex pattern>: outcome of nfa.Parse only
func cmdReNFAOnly(f []string) string {
	n, err := nfa.Parse(unhx(f[0]))
	if err != nil {
		return "ERR " + hx(err.Error())
	}
	if n == nil {
		return "NILNIL"
	}
	return "OK"
}

// reast <hex pattern>: regex ast.Parse and the direct (followpos) construction
func cmdReAST(f []string) string {
	a, err := rast.Parse(unhx(f[0]))
	if err != nil {
		return "ERR " + hx(err.Error())
	}
	if a == nil {
		return "NILNIL"
	}
	return "OK " + dfaStr(a.ToDFA())
}

// reastonly <hex pattern>: outcome of regex ast.Parse only
func cmdReASTOnly(f []string) string {
	a, err := rast.Parse(unhx(f[0]))
	if err != nil {
		return "ERR " + hx(err.Error())
	}
	if a == nil {
		return "NILNIL"
	}
	return "OK"
}

func init() { commands["specdfa"] = cmdSpecDFA }

// specdfa <hex spec text>: spec.Parse, then Spec.DFA(): the definitions (in order), the combined automaton and
// the terminal -> accepting states map; or the error lines.
func cmdSpecDFA(f []string) string {
	s, err := spec.Parse("f", strings.NewReader(unhx(f[0])))
	if err != nil {
		return "PARSEERR " + errLines(err)
	}
	if s == nil {
		return "NILNIL"
	}
	var ds []string
	for _, d := range s.Definitions {
		ds = append(ds, fmt.Sprintf("%s:%s:%v", hx(string(d.Terminal)), hx(d.Value), d.IsRegex))
	}
	defs := "defs=" + strings.Join(ds, ",")
	d, tm, err := s.DFA()
	if err != nil {
		if d != nil || tm != nil {
			return "DFAERR+VALUE " + defs + " " + errLines(err)
		}
		return "DFAERR " + defs + " " + errLines(err)
	}
	if d == nil {
		return "NILNIL"
	}
	var ts []string
	for t, states := range tm {
		var ss []string
		for _, st := range states {
			ss = append(ss, fmt.Sprint(int(st)))
		}
		ts = append(ts, hx(string(t))+":"+strings.Join(ss, "/"))
	}
	sort.Strings(ts)
	return "OK " + defs + " term=" + strings.Join(ts, ",") + " " + dfaStr(d)
}
