//go:build verif

package main

import (
	"fmt"
	"strconv"
	"strings"
	"sync"

	eparser "github.com/gardenbed/emerge/internal/ebnf/parser"
	"github.com/gardenbed/emerge/internal/ebnf/parser/spec"
	rparser "github.com/gardenbed/emerge/internal/regex/parser"
	rast "github.com/gardenbed/emerge/internal/regex/parser/ast"
)

func init() {
	commands["seq"] = cmdSeq
	commands["conc"] = cmdConc
}

// one unit of work: a specification (S<hex>) or a pattern (P<hex>); the result is a canonical string
func work(item string) (res string) {
	res, _ = workKeep(item)
	return res
}

// the same, and a function that prints the retained result object again (nil if nothing is retained):
// what a parse returned must not be changed by later parses
func workKeep(item string) (res string, again func() string) {
	defer func() {
		if r := recover(); r != nil {
			res = "PANIC " + fmt.Sprint(r)
		}
	}()
	switch item[0] {
	case 'S':
		s, err := spec.Parse("f", strings.NewReader(unhx(item[1:])))
		if err != nil {
			return "ERR " + errLines(err), nil
		}
		out := specStr(s)
		again = func() string { return specStr(s) }
		if d, tm, err := s.DFA(); err == nil {
			var ts []string
			for t, states := range tm {
				ts = append(ts, fmt.Sprintf("%s:%v", hx(string(t)), states))
			}
			out += " term=" + sortedJoin(ts) + " " + dfaStr(d)
		} else {
			out += " DFAERR " + errLines(err)
		}
		return out, again
	case 'P':
		p := unhx(item[1:])
		var b strings.Builder
		// automata are compared after the dependency's canonical renumbering (Minimize numbers states arbitrarily)
		if d, err := spec.VerifRegexToDFA(p); err != nil {
			b.WriteString("ERR " + hx(err.Error()))
		} else {
			b.WriteString("OK " + dfaStr(d))
		}
		if a, err := rast.Parse(p); err != nil {
			b.WriteString(" | ERR")
		} else {
			b.WriteString(" | OK " + dfaStr(a.ToDFA().EliminateDeadStates().ReindexStates()))
			b.WriteString(" | tree=")
			astTree(&b, a.Root)
			again = func() string {
				var t strings.Builder
				astTree(&t, a.Root)
				return t.String()
			}
		}
		return b.String(), again
	}
	return "?", nil
}

// the package-level tables every parse reads; they are read-only by convention, so this string must never change
func sharedState() string {
	return eparser.VerifSharedState() + " | " + spec.VerifSharedState() + " | " + rparser.VerifSharedState()
}

// where two prints of the shared state differ (a short window)
func sharedDiff(a, b string) string {
	i := 0
	for i < len(a) && i < len(b) && a[i] == b[i] {
		i++
	}
	lo := i - 60
	if lo < 0 {
		lo = 0
	}
	ha, hb := i+60, i+60
	if ha > len(a) {
		ha = len(a)
	}
	if hb > len(b) {
		hb = len(b)
	}
	return fmt.Sprintf("before=%q after=%q", a[lo:ha], b[lo:hb])
}

// the syntax tree as built: operators with their operands in order, leaves with value and position
func astTree(b *strings.Builder, n rast.Node) {
	switch v := n.(type) {
	case *rast.Concat:
		b.WriteString("C(")
		for _, e := range v.Exprs {
			astTree(b, e)
		}
		b.WriteString(")")
	case *rast.Alt:
		b.WriteString("A(")
		for _, e := range v.Exprs {
			astTree(b, e)
		}
		b.WriteString(")")
	case *rast.Star:
		b.WriteString("S(")
		astTree(b, v.Expr)
		b.WriteString(")")
	case *rast.Empty:
		b.WriteString("E")
	case *rast.Char:
		fmt.Fprintf(b, "c%d@%d ", v.Val, v.Pos)
	default:
		fmt.Fprintf(b, "?%T", n)
	}
}

// seq <item,item,...>: the items one after the other in this order; prints the results in the order given
func cmdSeq(f []string) string {
	items := strings.Split(f[0], ",")
	out := make([]string, len(items))
	shared := sharedState()
	type kept struct {
		first string
		again func() string
	}
	keep := make([]kept, len(items))
	for i, it := range items {
		res, again := workKeep(it)
		out[i] = hx(res)
		if again != nil {
			keep[i] = kept{again(), again}
		}
		if now := sharedState(); now != shared {
			out[i] = hx("SHARED-STATE-CHANGED " + sharedDiff(shared, now))
			shared = now
		}
	}
	// what an earlier parse returned is still what it returned
	for i, k := range keep {
		if k.again != nil {
			if now := k.again(); now != k.first {
				out[i] = hx("RESULT-CHANGED-LATER " + sharedDiff(k.first, now))
			}
		}
	}
	return strings.Join(out, ",")
}

// conc <rounds> <item,item,...>: every item on its own goroutine, all started together, repeated; prints for each
// item the number of distinct results seen and the first one
func cmdConc(f []string) string {
	rounds, _ := strconv.Atoi(f[0])
	items := strings.Split(f[1], ",")
	seen := make([]map[string]int, len(items))
	for i := range seen {
		seen[i] = map[string]int{}
	}
	shared := sharedState()
	for r := 0; r < rounds; r++ {
		var wg sync.WaitGroup
		res := make([]string, len(items))
		start := make(chan struct{})
		for i, it := range items {
			wg.Add(1)
			go func(i int, it string) {
				defer wg.Done()
				<-start
				res[i] = work(it)
			}(i, it)
		}
		close(start)
		wg.Wait()
		for i := range items {
			seen[i][res[i]]++
		}
	}
	var out []string
	for i := range items {
		first := ""
		for k := range seen[i] {
			if first == "" || k < first {
				first = k
			}
		}
		out = append(out, fmt.Sprintf("%d:%s", len(seen[i]), hx(first)))
	}
	if now := sharedState(); now != shared {
		out[0] = "1:" + hx("SHARED-STATE-CHANGED "+sharedDiff(shared, now))
	}
	return strings.Join(out, ",")
}
