//go:build verif

package main

import "github.com/moorara/algo/grammar"

func grammarEndmarker() grammar.Terminal           { return grammar.Endmarker }
func grammarNonTerminal(s string) grammar.NonTerminal { return grammar.NonTerminal(s) }
