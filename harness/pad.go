//go:build verif

package main

import (
	"fmt"
	"strconv"
	"strings"

	"github.com/gardenbed/emerge/internal/ebnf/parser"
)

func init() { commands["padsweep"] = cmdPadSweep }

func padding(kind string, p int) string {
	switch kind {
	case "sp":
		return strings.Repeat(" ", p)
	case "nl":
		return strings.Repeat("\n", p)
	case "cm": // a block comment of total length p (p >= 4), else spaces
		if p < 4 {
			return strings.Repeat(" ", p)
		}
		return "/*" + strings.Repeat("x", p-4) + "*/"
	case "lc": // a line comment of total length p (p >= 3) including the newline
		if p < 3 {
			return strings.Repeat(" ", p)
		}
		return "//" + strings.Repeat("y", p-3) + "\n"
	case "mix":
		var b strings.Builder
		// runs of blanks of several kinds (single-character runs make the dependency's reader very slow)
		for i := 0; i < p; i++ {
			switch m := i % 256; {
			case m < 200:
				b.WriteByte(' ')
			case m < 250:
				b.WriteByte('\t')
			case m < 254:
				b.WriteByte('\n')
			default:
				b.WriteByte('\r')
			}
		}
		return b.String()
	}
	return ""
}

// padsweep <hex head> <hex tail> <kind> <lo> <hi> <step> [extra p ...]:
// parses head + PAD(kind, p) + tail for every p and reports whether the callback sequence and outcome are the same for all p.
// out: UNIFORM <n> <result at first p>   or   DIFF <p> <result at p> BASE <result at first p>
func cmdPadSweep(f []string) string {
	head, tail, kind := unhx(f[0]), unhx(f[1]), f[2]
	lo, _ := strconv.Atoi(f[3])
	hi, _ := strconv.Atoi(f[4])
	step, _ := strconv.Atoi(f[5])
	var ps []int
	for p := lo; p <= hi; p += step {
		ps = append(ps, p)
	}
	for _, x := range f[6:] {
		p, _ := strconv.Atoi(x)
		ps = append(ps, p)
	}
	base := ""
	for i, p := range ps {
		src := head + padding(kind, p) + tail
		pr, err := parser.New("f", strings.NewReader(src))
		var res string
		if err != nil {
			res = "NEWERR " + hx(err.Error())
		} else {
			res = runParse(pr, -1)
		}
		if i == 0 {
			base = res
		} else if res != base {
			return fmt.Sprintf("DIFF %d %s BASE %s", p, strings.ReplaceAll(res, " ", "_"), strings.ReplaceAll(base, " ", "_"))
		}
	}
	return fmt.Sprintf("UNIFORM %d %s", len(ps), strings.ReplaceAll(base, " ", "_"))
}
