//go:build verif

package main

import (
	"fmt"
	"sort"
	"strings"

	"github.com/moorara/algo/grammar"
	"github.com/moorara/algo/parser/lr"
	"github.com/moorara/algo/parser/lr/lookahead"

	"github.com/gardenbed/emerge/internal/ebnf/parser/spec"
)

func init() { commands["lalr"] = cmdLalr }

// lalr <hex spec text>: spec.Parse, then Spec.LALRParsingTable(). Prints the grammar with symbols and productions
// numbered (terminals and non-terminals sorted by name; productions in Spec.Productions() order), the precedence
// levels, and either the conflict report or every ACTION/GOTO entry of the table.
func cmdLalr(f []string) string {
	s, err := spec.Parse("f", strings.NewReader(unhx(f[0])))
	if err != nil || s == nil {
		return "PARSEERR"
	}
	var terms, nts []string
	for t := range s.Grammar.Terminals.All() {
		terms = append(terms, string(t))
	}
	for n := range s.Grammar.NonTerminals.All() {
		nts = append(nts, string(n))
	}
	sort.Strings(terms)
	sort.Strings(nts)
	tidx, nidx := map[string]int{}, map[string]int{}
	for i, t := range terms {
		tidx[t] = i
	}
	for i, n := range nts {
		nidx[n] = i
	}
	prods := s.Productions()
	symStr := func(x grammar.Symbol) string {
		switch v := x.(type) {
		case grammar.Terminal:
			return fmt.Sprintf("t%d", tidx[string(v)])
		case grammar.NonTerminal:
			return fmt.Sprintf("n%d", nidx[string(v)])
		}
		return "?"
	}
	prodStr := func(p *grammar.Production) string {
		var b []string
		for _, x := range p.Body {
			b = append(b, symStr(x))
		}
		return fmt.Sprintf("%d>%s", nidx[string(p.Head)], strings.Join(b, "."))
	}
	pidx := func(p *grammar.Production) int {
		for i, q := range prods {
			if q.Equal(p) {
				return i
			}
		}
		return -1
	}
	var ps []string
	for _, p := range prods {
		ps = append(ps, prodStr(p))
	}
	var ls []string
	for _, l := range s.Precedences {
		var hs []string
		for h := range l.Handles.All() {
			if h.Terminal != nil {
				hs = append(hs, fmt.Sprintf("t%d", tidx[string(*h.Terminal)]))
			} else if h.Production != nil {
				hs = append(hs, fmt.Sprintf("p%d", pidx(h.Production)))
			}
		}
		sort.Strings(hs)
		ls = append(ls, fmt.Sprintf("%d:%s", l.Associativity, strings.Join(hs, ",")))
	}
	var tn []string
	for _, t := range terms {
		tn = append(tn, hx(t))
	}
	head := fmt.Sprintf("nt=%d tn=%s nnt=%d start=%d prods=%s levels=%s", len(terms), strings.Join(tn, ","), len(nts), nidx[string(s.Grammar.Start)], strings.Join(ps, ";"), strings.Join(ls, ";"))
	T, err := s.LALRParsingTable()
	if err != nil {
		if T != nil {
			return "CONFLICT+TABLE " + head + " msg=" + hx(err.Error())
		}
		// does the dependency's construction, called directly with the spec's grammar and precedence levels, agree?
		direct := "conflict"
		if T2 := directTable(s); T2 != nil {
			direct = "ok"
		}
		return "CONFLICT " + head + " msg=" + hx(err.Error()) + " direct=" + direct
	}
	if T == nil {
		return "NILNIL"
	}
	acts, gotos := dumpTable(T, terms, tidx, nidx, pidx)
	// the same table straight from the dependency's construction: tells a defect of the construction from one of emerge's own code
	direct := 0
	if T2 := directTable(s); T2 != nil {
		a2, g2 := dumpTable(T2, terms, tidx, nidx, pidx)
		if strings.Join(a2, ";") == strings.Join(acts, ";") && strings.Join(g2, ";") == strings.Join(gotos, ";") {
			direct = 1
		}
	}
	return "OK " + head + " acts=" + strings.Join(acts, ";") + " gotos=" + strings.Join(gotos, ";") + fmt.Sprintf(" direct=%d", direct)
}

// the dependency's construction called directly. Whether it settles an entry with three or more actions depends on the
// order in which it happens to visit them (fixed in emerge by c31491e), so it is asked several times.
func directTable(s *spec.Spec) *lr.ParsingTable {
	for i := 0; i < 12; i++ {
		if T, err := lookahead.BuildParsingTable(s.Grammar, s.Precedences); err == nil && T != nil {
			return T
		}
	}
	return nil
}

// every ACTION/GOTO entry of a table, in the numbering of the dump
func dumpTable(T *lr.ParsingTable, terms []string, tidx, nidx map[string]int, pidx func(*grammar.Production) int) ([]string, []string) {
	var acts, gotos []string
	all := append(append([]grammar.Terminal{}, T.Terminals...), grammar.Endmarker)
	for _, st := range T.States {
		for _, a := range all {
			act, err := T.ACTION(st, a)
			if _, multi := err.(*lr.ConflictError); multi {
				// a table that was returned without an error still holds several actions in one entry
				ai := len(terms)
				if a != grammar.Endmarker {
					ai = tidx[string(a)]
				}
				acts = append(acts, fmt.Sprintf("%d:%d:9:0", int(st), ai))
				continue
			}
			if err != nil || act == nil {
				continue
			}
			ai := len(terms)
			if a != grammar.Endmarker {
				ai = tidx[string(a)]
			}
			switch act.Type {
			case lr.SHIFT:
				acts = append(acts, fmt.Sprintf("%d:%d:0:%d", int(st), ai, int(act.State)))
			case lr.REDUCE:
				acts = append(acts, fmt.Sprintf("%d:%d:1:%d", int(st), ai, pidx(act.Production)))
			case lr.ACCEPT:
				acts = append(acts, fmt.Sprintf("%d:%d:2:0", int(st), ai))
			}
		}
		for _, A := range T.NonTerminals {
			if nx, err := T.GOTO(st, A); err == nil {
				if i, ok := nidx[string(A)]; ok {
					gotos = append(gotos, fmt.Sprintf("%d:%d:%d", int(st), i, int(nx)))
				}
			}
		}
	}
	return dedupStrings(acts), dedupStrings(gotos)
}

func dedupStrings(xs []string) []string {
	seen := map[string]bool{}
	var out []string
	for _, x := range xs {
		if !seen[x] {
			seen[x] = true
			out = append(out, x)
		}
	}
	return out
}
