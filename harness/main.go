//go:build verif

// Command harness drives the real emerge packages in-process over a line protocol.
// It is placed at /repo/internal/zzverif/harness by a build overlay (nothing is written to /repo).
//
//	harness <command> < cases > results
//
// Every input line is one case; every case yields exactly one output line.
package main

import (
	"bufio"
	"encoding/hex"
	"fmt"
	"os"
	"runtime/debug"
	"strings"
)

var commands = map[string]func(fields []string) string{}

func hx(s string) string {
	if s == "" {
		return "-"
	}
	return hex.EncodeToString([]byte(s))
}

func unhx(s string) string {
	if s == "-" {
		return ""
	}
	b, err := hex.DecodeString(s)
	if err != nil {
		panic("bad hex field: " + s)
	}
	return string(b)
}

func main() {
	if len(os.Args) < 2 {
		fmt.Fprintln(os.Stderr, "usage: harness <command>")
		os.Exit(2)
	}
	cmd, ok := commands[os.Args[1]]
	if !ok {
		fmt.Fprintln(os.Stderr, "unknown command", os.Args[1])
		os.Exit(2)
	}
	in := bufio.NewReaderSize(os.Stdin, 1<<20)
	out := bufio.NewWriterSize(os.Stdout, 1<<20)
	defer out.Flush()
	for {
		line, err := in.ReadString('\n')
		if line != "" {
			line = strings.TrimRight(line, "\n")
			res := run(cmd, strings.Fields(line))
			out.WriteString(res)
			out.WriteByte('\n')
		}
		if err != nil {
			break
		}
	}
}

func run(cmd func([]string) string, fields []string) (res string) {
	defer func() {
		if r := recover(); r != nil {
			// the panic value and the innermost frames outside the Go runtime (to tell where it was raised)
			var frames []string
			for _, l := range strings.Split(string(debug.Stack()), "\n") {
				if strings.HasPrefix(l, "\t") || strings.HasPrefix(l, "goroutine") || strings.HasPrefix(l, "runtime") || strings.HasPrefix(l, "panic(") || strings.Contains(l, "zzverif/harness") {
					continue
				}
				if i := strings.LastIndex(l, "("); i > 0 {
					l = l[:i]
				}
				frames = append(frames, l)
				if len(frames) == 16 {
					break
				}
			}
			res = "PANIC " + hx(fmt.Sprint(r)+" @ "+strings.Join(frames, " < "))
		}
	}()
	return cmd(fields)
}
