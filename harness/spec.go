//go:build verif

package main

import (
	"fmt"
	"sort"
	"strings"

	"github.com/moorara/algo/grammar"
	"github.com/moorara/algo/parser/lr"

	ebnfast "github.com/gardenbed/emerge/internal/ebnf/parser/ast"
	"github.com/gardenbed/emerge/internal/ebnf/parser/spec"
)

func init() { commands["spec"] = cmdSpec }

func symStr(s grammar.Symbol) string {
	switch v := s.(type) {
	case grammar.Terminal:
		return "t" + hx(string(v))
	case grammar.NonTerminal:
		return "n" + hx(string(v))
	}
	return "?"
}

func prodStr(p *grammar.Production) string {
	var b strings.Builder
	b.WriteString(hx(string(p.Head)))
	b.WriteString(">")
	for i, s := range p.Body {
		if i > 0 {
			b.WriteString(".")
		}
		b.WriteString(symStr(s))
	}
	return b.String()
}

func sortedJoin(xs []string) string {
	sort.Strings(xs)
	return strings.Join(xs, ",")
}

func errLines(err error) string {
	var lines []string
	for _, l := range strings.Split(err.Error(), "\n") {
		l = strings.TrimSpace(l)
		l = strings.TrimPrefix(l, "• ")
		l = strings.TrimSpace(l)
		if l != "" {
			lines = append(lines, hx(l))
		}
	}
	return strings.Join(lines, ",") // in the order reported: the order of the diagnostics is part of what is compared
}

func specStr(s *spec.Spec) string {
	var b strings.Builder
	fmt.Fprintf(&b, "OK name=%s", hx(s.Name))
	var ts, ns, ps []string
	for t := range s.Grammar.Terminals.All() {
		ts = append(ts, hx(string(t)))
	}
	for n := range s.Grammar.NonTerminals.All() {
		ns = append(ns, hx(string(n)))
	}
	for p := range s.Grammar.Productions.All() {
		ps = append(ps, prodStr(p))
	}
	fmt.Fprintf(&b, " T=%s N=%s P=%s S=%s", sortedJoin(ts), sortedJoin(ns), sortedJoin(ps), hx(string(s.Grammar.Start)))
	var ds []string
	for _, d := range s.Definitions {
		pos := "-"
		if d.Pos != nil {
			pos = fmt.Sprintf("%d/%d/%d", d.Pos.Offset, d.Pos.Line, d.Pos.Column)
		}
		ds = append(ds, fmt.Sprintf("%s:%s:%v:%s", hx(string(d.Terminal)), hx(d.Value), d.IsRegex, pos))
	}
	fmt.Fprintf(&b, " D=%s", strings.Join(ds, ","))
	var ls []string
	for _, l := range s.Precedences {
		var hs []string
		for h := range l.Handles.All() {
			hs = append(hs, handleStr(h))
		}
		ls = append(ls, fmt.Sprintf("%d:%s", l.Associativity, sortedJoin(hs)))
	}
	fmt.Fprintf(&b, " L=%s", strings.Join(ls, ";"))
	return b.String()
}

func handleStr(h *lr.PrecedenceHandle) string {
	if h.Terminal != nil {
		return "t" + hx(string(*h.Terminal))
	}
	if h.Production != nil {
		return "p" + prodStr(h.Production)
	}
	return "?"
}

// spec <hex text>: spec.Parse
func cmdSpec(f []string) string {
	s, err := spec.Parse("f", strings.NewReader(unhx(f[0])))
	if err != nil {
		if s != nil {
			return "ERR+SPEC " + errLines(err)
		}
		return "ERR " + errLines(err)
	}
	if s == nil {
		return "NILNIL"
	}
	return specStr(s)
}

func init() { commands["accept"] = cmdAccept }

// accept <hex text>: spec.Parse followed by Spec.DFA() (patterns are validated there) and LALRParsingTable is NOT included.
func cmdAccept(f []string) string {
	s, err := spec.Parse("f", strings.NewReader(unhx(f[0])))
	if err != nil {
		return "ERR " + errLines(err)
	}
	if s == nil {
		return "NILNIL"
	}
	if _, _, err := s.DFA(); err != nil {
		return "DFAERR " + errLines(err)
	}
	return specStr(s)
}

func init() { commands["ebnfast"] = cmdEbnfAst }

// ebnfast <hex text>: the typed-tree entry point (ebnf/parser/ast.Parse): outcome only
func cmdEbnfAst(f []string) string {
	g, err := ebnfast.Parse("f", strings.NewReader(unhx(f[0])))
	if err != nil {
		if g != nil {
			return "ERR+VALUE " + errLines(err)
		}
		return "ERR " + errLines(err)
	}
	if g == nil {
		return "NILNIL"
	}
	return "OK"
}
