//go:build verif

package main

import (
	"fmt"
	"go/ast"
	"go/constant"
	"go/importer"
	"go/parser"
	"go/token"
	"go/types"
	"os"
	"path/filepath"
	"sort"
	"strconv"
	"strings"

	"github.com/gardenbed/charm/ui"
	auto "github.com/moorara/algo/automata"

	"github.com/gardenbed/emerge/internal/ebnf/parser/spec"
	"github.com/gardenbed/emerge/internal/generate/golang"
)

func init() { commands["gen"] = cmdGen }

// stdlibOnly refuses every import path that is not part of the standard library.
type stdlibOnly struct{ imp types.Importer }

func (s stdlibOnly) Import(path string) (*types.Package, error) {
	if strings.Contains(strings.Split(path, "/")[0], ".") {
		return nil, fmt.Errorf("import of non-standard package %q", path)
	}
	return s.imp.Import(path)
}

var sharedImporter types.Importer

// emittedTables reads advanceDFA and evalDFA back from the emitted lexer.go.
// -> transitions (state, symbol) -> next; accepting state -> terminal; problems
func emittedTables(f *ast.File) (map[[2]int64]int64, map[int64]string, []string) {
	trans := map[[2]int64]int64{}
	finals := map[int64]string{}
	var problems []string
	constInt := func(e ast.Expr) (int64, bool) {
		switch x := e.(type) {
		case *ast.BasicLit:
			switch x.Kind {
			case token.INT:
				v, err := strconv.ParseInt(x.Value, 0, 64)
				return v, err == nil
			case token.CHAR:
				c := constant.MakeFromLiteral(x.Value, token.CHAR, 0)
				v, ok := constant.Int64Val(c)
				return v, ok
			}
		case *ast.UnaryExpr:
			if x.Op == token.SUB {
				v, ok := constIntExpr(x.X)
				return -v, ok
			}
		}
		return 0, false
	}
	for _, d := range f.Decls {
		fd, ok := d.(*ast.FuncDecl)
		if !ok {
			continue
		}
		switch fd.Name.Name {
		case "advanceDFA":
			sw, ok := fd.Body.List[0].(*ast.SwitchStmt)
			if !ok {
				problems = append(problems, "advanceDFA: first statement is not a switch")
				continue
			}
			for _, c := range sw.Body.List {
				cc := c.(*ast.CaseClause)
				if len(cc.List) != 1 {
					problems = append(problems, "advanceDFA: state case with several values")
					continue
				}
				from, ok := constInt(cc.List[0])
				if !ok {
					problems = append(problems, "advanceDFA: non-constant state")
					continue
				}
				inner, ok := cc.Body[0].(*ast.SwitchStmt)
				if !ok {
					problems = append(problems, "advanceDFA: case body is not a switch")
					continue
				}
				for _, ic := range inner.Body.List {
					icc := ic.(*ast.CaseClause)
					ret, ok := icc.Body[0].(*ast.ReturnStmt)
					if !ok {
						problems = append(problems, "advanceDFA: symbol case does not return")
						continue
					}
					to, ok := constInt(ret.Results[0])
					if !ok {
						problems = append(problems, "advanceDFA: non-constant target")
						continue
					}
					for _, se := range icc.List {
						sym, ok := constInt(se)
						if !ok {
							problems = append(problems, "advanceDFA: non-constant symbol")
							continue
						}
						k := [2]int64{from, sym}
						if _, dup := trans[k]; dup {
							problems = append(problems, fmt.Sprintf("advanceDFA: duplicate case state %d symbol %d", from, sym))
						}
						trans[k] = to
					}
				}
			}
		case "evalDFA":
			sw, ok := fd.Body.List[0].(*ast.SwitchStmt)
			if !ok {
				problems = append(problems, "evalDFA: first statement is not a switch")
				continue
			}
			for _, c := range sw.Body.List {
				cc := c.(*ast.CaseClause)
				term := ""
				ast.Inspect(cc, func(n ast.Node) bool {
					if call, ok := n.(*ast.CallExpr); ok {
						if id, ok := call.Fun.(*ast.Ident); ok && id.Name == "Terminal" && len(call.Args) == 1 {
							if bl, ok := call.Args[0].(*ast.BasicLit); ok && bl.Kind == token.STRING {
								if s, err := strconv.Unquote(bl.Value); err == nil {
									term = s
								}
							}
						}
					}
					return true
				})
				if len(cc.List) == 0 {
					problems = append(problems, "evalDFA: case without states")
				}
				for _, se := range cc.List {
					st, ok := constInt(se)
					if !ok {
						problems = append(problems, "evalDFA: non-constant state")
						continue
					}
					if _, dup := finals[st]; dup {
						problems = append(problems, fmt.Sprintf("evalDFA: duplicate case for state %d", st))
					}
					finals[st] = term
				}
			}
		}
	}
	return trans, finals, problems
}

func constIntExpr(e ast.Expr) (int64, bool) {
	if bl, ok := e.(*ast.BasicLit); ok && bl.Kind == token.INT {
		v, err := strconv.ParseInt(bl.Value, 0, 64)
		return v, err == nil
	}
	return 0, false
}

// gen <hex spec text> [name|-] [hex prior spec text]: spec.Parse, golang.Generate into a scratch directory; the emitted package is parsed,
// type-checked against the standard library only, and the two tables of lexer.go are compared, entry by entry, with the
// automaton and terminal map Spec.DFA() computes.
func cmdGen(f []string) string {
	s, err := spec.Parse("f", strings.NewReader(unhx(f[0])))
	if err != nil || s == nil {
		return "PARSEERR"
	}
	if len(f) > 1 && f[1] != "-" {
		s.Name = unhx(f[1])
	}
	dir, err := os.MkdirTemp("", "verif-gen-")
	if err != nil {
		return "TMPERR " + hx(err.Error())
	}
	defer os.RemoveAll(dir)
	if len(f) > 2 {
		// a package of the same name has been generated into the directory before: the second generation is refused,
		// or what it leaves behind is the package of the second specification
		if p, perr := spec.Parse("f", strings.NewReader(unhx(f[2]))); perr == nil && p != nil {
			p.Name = s.Name
			_ = golang.Generate(ui.NewNop(), &golang.Params{Path: dir, Spec: p})
		}
	}
	gerr := golang.Generate(ui.NewNop(), &golang.Params{Path: dir, Spec: s})
	if len(f) > 2 && gerr != nil {
		return "REFUSED " + errLines(gerr)
	}
	d, tm, derr := s.DFA()
	if gerr != nil {
		if derr != nil {
			return "GENERR-DFA " + errLines(gerr)
		}
		return "GENERR " + errLines(gerr)
	}
	if derr != nil {
		return "GENOK-BUT-DFAERR " + errLines(derr)
	}
	d2, tm2, _ := s.DFA()
	stable := d2 != nil && dfaStr(d) == dfaStr(d2) && fmt.Sprint(tm) == fmt.Sprint(tm2)

	pkgDir := filepath.Join(dir, s.Name)
	fset := token.NewFileSet()
	var files []*ast.File
	var problems []string
	var lexerFile *ast.File
	names := []string{"errors.go", "input.go", "lexer.go", "parser.go", "stack.go", "types.go"}
	for _, n := range names {
		af, err := parser.ParseFile(fset, filepath.Join(pkgDir, n), nil, parser.AllErrors)
		if err != nil {
			problems = append(problems, "syntax error in "+n+": "+strings.Split(err.Error(), "\n")[0])
			continue
		}
		files = append(files, af)
		if n == "lexer.go" {
			lexerFile = af
		}
	}
	ents, _ := os.ReadDir(pkgDir)
	if len(ents) != len(names) {
		problems = append(problems, fmt.Sprintf("%d files emitted, expected %d", len(ents), len(names)))
	}
	if len(problems) == 0 {
		if sharedImporter == nil {
			sharedImporter = importer.ForCompiler(token.NewFileSet(), "source", nil)
		}
		conf := types.Config{Importer: stdlibOnly{sharedImporter}, Error: func(err error) {
			if len(problems) < 5 {
				problems = append(problems, "type error: "+err.Error())
			}
		}}
		_, _ = conf.Check(s.Name, fset, files, nil)
	}
	checked := 0
	if lexerFile != nil {
		trans, finals, ps := emittedTables(lexerFile)
		problems = append(problems, ps...)
		// every state x every symbol of the automaton plus probe characters
		symSet := map[int64]bool{0x00: true, 0x27: true, 0x5C: true, 0x7F: true, 0x80: true, 0x10FFFF: true, 0xE000: true}
		for _, a := range d.Symbols() {
			symSet[int64(a)] = true
		}
		states := d.States()
		for _, st := range states {
			for a := range symSet {
				want := int64(d.Next(st, auto.Symbol(a)))
				got, ok := trans[[2]int64{int64(st), a}]
				if !ok {
					got = -1
				}
				checked++
				if got != want && len(problems) < 8 {
					problems = append(problems, fmt.Sprintf("advanceDFA(%d, %d) = %d, the automaton goes to %d", st, a, got, want))
				}
			}
		}
		for k := range trans {
			found := false
			for _, st := range states {
				if int64(st) == k[0] {
					found = true
				}
			}
			if !found && len(problems) < 8 {
				problems = append(problems, fmt.Sprintf("advanceDFA has a case for state %d, which the automaton does not have", k[0]))
			}
		}
		owner := map[int64]string{}
		for t, ss := range tm {
			for _, st := range ss {
				owner[int64(st)] = string(t)
			}
		}
		for _, st := range states {
			want, wok := owner[int64(st)]
			got, gok := finals[int64(st)]
			checked++
			if (wok != gok || want != got) && len(problems) < 8 {
				problems = append(problems, fmt.Sprintf("evalDFA(%d) = %q/%v, the terminal map says %q/%v", st, got, gok, want, wok))
			}
		}
		for st := range finals {
			if _, ok := owner[st]; !ok && len(problems) < 8 {
				problems = append(problems, fmt.Sprintf("evalDFA has a case for state %d, which owns no terminal", st))
			}
		}
	}
	sort.Strings(problems)
	res := "OK"
	if len(problems) > 0 {
		res = "BAD"
	}
	var hp []string
	for _, p := range problems {
		hp = append(hp, hx(p))
	}
	return fmt.Sprintf("%s stable=%v states=%d checked=%d problems=%s", res, stable, len(d.States()), checked, strings.Join(hp, ","))
}

func init() { commands["emit"] = cmdEmit }

// emit <hex spec text> <hex existing directory>: golang.Generate into the directory; prints the package name and the
// automaton and terminal map of Spec.DFA() (the tables the emitted lexer encodes).
func cmdEmit(f []string) string {
	s, err := spec.Parse("f", strings.NewReader(unhx(f[0])))
	if err != nil || s == nil {
		return "PARSEERR"
	}
	d, tm, derr := s.DFA()
	if derr != nil {
		return "DFAERR " + errLines(derr)
	}
	if err := golang.Generate(ui.NewNop(), &golang.Params{Path: unhx(f[1]), Spec: s}); err != nil {
		return "GENERR " + errLines(err)
	}
	var ts []string
	for t, states := range tm {
		var ss []string
		for _, st := range states {
			ss = append(ss, fmt.Sprint(int(st)))
		}
		ts = append(ts, hx(string(t))+":"+strings.Join(ss, "/"))
	}
	sort.Strings(ts)
	return "OK name=" + hx(s.Name) + " term=" + strings.Join(ts, ",") + " " + dfaStr(d)
}

func init() { commands["det"] = cmdDet }

// det <hex spec text> <n>: the whole pipeline (spec.Parse, Spec.DFA, LALR table, golang.Generate) n times in this
// process; every run's observable result (error text, or the bytes of the six files) must be identical.
func cmdDet(f []string) string {
	n, _ := strconv.Atoi(f[1])
	text := unhx(f[0])
	results := map[string]int{}
	var order []string
	for i := 0; i < n; i++ {
		res := func() string {
			s, err := spec.Parse("f", strings.NewReader(text))
			if err != nil {
				return "PARSEERR\n" + err.Error()
			}
			dir, err := os.MkdirTemp("", "verif-det-")
			if err != nil {
				return "TMPERR"
			}
			defer os.RemoveAll(dir)
			var b strings.Builder
			if err := golang.Generate(ui.NewNop(), &golang.Params{Path: dir, Spec: s}); err != nil {
				b.WriteString("GENERR\n" + err.Error() + "\n")
			}
			ents, _ := os.ReadDir(filepath.Join(dir, s.Name))
			for _, e := range ents {
				data, _ := os.ReadFile(filepath.Join(dir, s.Name, e.Name()))
				b.WriteString("FILE " + e.Name() + "\n")
				b.Write(data)
			}
			return b.String()
		}()
		if _, ok := results[res]; !ok {
			order = append(order, res)
		}
		results[res]++
	}
	if len(order) == 1 {
		kind := strings.SplitN(order[0], "\n", 2)[0]
		return fmt.Sprintf("SAME %d %s %d", n, kind, len(order[0]))
	}
	// first differing line of the first two results
	a, b := strings.Split(order[0], "\n"), strings.Split(order[1], "\n")
	for i := 0; i < len(a) && i < len(b); i++ {
		if a[i] != b[i] {
			return fmt.Sprintf("DIFF %d %s %s", len(order), hx(a[i]), hx(b[i]))
		}
	}
	return fmt.Sprintf("DIFF %d length", len(order))
}
